"""C03 -- a set changes exactly the matched nodes and their aliases.

Decided clauses (DESIGN.md section 4, C03):
  D1  write-site guards in the reference-replacement routine: every store
      of the replacement node is dominated by an identity test against the
      reference node and by a position test (data is parent, key equals
      parentref) or an anchor test; sibling branches agree;
  D2  sole writers on the set_value call graph;
  D3  anchor preservation in Nodes.make_new_node;
  D4  ValueError from make_new_node is converted at the single call site;
  D5  the routine is started on the whole document with the coordinates'
      own (parent, parentref) and the node found there.
"""
from __future__ import annotations

import ast
from typing import Dict, List, Optional, Set, Tuple

from rules import c09
from sa.effects import Effects, mutation_sites
from sa.guards import Fact, atoms, facts_at
from sa.model import (AnalysisError, FuncInfo, Program, ancestors, closure,
                      enclosing_stmt, parent, src, walk_local)
from sa.partial import handler_names
from sa.report import Check

META = {
    "explanation": (
        "Static decision over Processor._update_node.recurse, "
        "_apply_change and Nodes.make_new_node: every site that stores the "
        "replacement node into a container (subscript store, insert, add, "
        "key re-insertion) is checked for dominating guards -- identity "
        "with the reference node, and position (container is the addressed "
        "parent and the key/index equals parentref) or anchor (the shared "
        "object is an anchored scalar, i.e. an alias); the mapping, "
        "sequence, set, OrderedDict and dict branches must impose the same "
        "guard classes; on the write path of set_value document mutations "
        "occur only in the listed writers; every constructor of the "
        "replacement scalar has an anchored twin selected by a hasattr "
        "test on the old node; the ValueError of an impossible conversion "
        "is turned into TypeMismatchYAMLPathException.  Nothing is "
        "executed."),
    "declined": [
        "the frame condition itself (whether two scalars share an object "
        "is a property of the input)",
        "that the edited document serialises and reloads to the same data "
        "(ruamel emitter)",
    ],
    "assumptions": ["object identity (`is`) of the old node is the "
                    "routine's notion of 'the matched node and its aliases'"],
    "trusted_base": ["ruamel container API (insert/pop/add/discard)"],
}


def recurse_fn(prog: Program) -> FuncInfo:
    fi = prog.func("Processor._update_node.recurse")
    if len(fi.params()) != 5:
        raise AnalysisError("recurse() signature changed")
    return fi


def _expand_flag(fi: FuncInfo, f: Fact) -> List[Fact]:
    """A boolean flag fact stands for the facts under which it is set."""
    if not (f.kind == "cond" and f.pol and isinstance(f.expr, ast.Name)):
        return []
    out: List[Fact] = []
    for n in walk_local(fi.node):
        if isinstance(n, ast.Assign) and src(n.targets[0]) == f.expr.id and \
                isinstance(n.value, ast.Constant) and n.value.value is True:
            out.extend(x for x in facts_at(n) if x.kind == "cond")
    return out


def _site_facts(fi: FuncInfo, node: ast.AST) -> List[Fact]:
    facts = [f for f in facts_at(node) if f.kind == "cond"]
    # a discard of the old node directly before the add legitimately kills
    # the membership fact: take the facts that held on entry to the block
    st = enclosing_stmt(node)
    blk = getattr(parent(st), "body", [])
    if st in blk and blk.index(st) > 0 and all(
            isinstance(p, ast.Expr) and isinstance(p.value, ast.Call) and
            src(p.value.func).endswith(".discard")
            for p in blk[:blk.index(st)]):
        facts = [f for f in facts_at(blk[0]) if f.kind == "cond"]
    # filters of a list comprehension that feeds the enclosing for loop
    for a in ancestors(node):
        if isinstance(a, ast.For) and isinstance(a.iter, ast.ListComp):
            for g in a.iter.generators:
                for cond in g.ifs:
                    facts.extend(atoms(cond, True, a))
    extra: List[Fact] = []
    for f in facts:
        extra.extend(_expand_flag(fi, f))
    return facts + extra


def _is_identity(e: ast.AST, ref: str, data: str) -> bool:
    if isinstance(e, ast.Compare) and len(e.ops) == 1:
        l, r = src(e.left), src(e.comparators[0])
        if isinstance(e.ops[0], ast.Is) and ref in (l, r):
            return True
    # `any(m is ref for m in data)`: the reference node itself is a member.
    # (`ref in data` is membership by *equality*: true of an unrelated set
    # that holds an equal scalar, which must not be touched.)
    if isinstance(e, ast.Call) and src(e.func) == "any" and \
            len(e.args) == 1 and isinstance(e.args[0], ast.GeneratorExp):
        ge = e.args[0]
        if len(ge.generators) == 1 and not ge.generators[0].ifs and \
                src(ge.generators[0].iter) == data and \
                isinstance(ge.elt, ast.Compare) and len(ge.elt.ops) == 1 \
                and isinstance(ge.elt.ops[0], ast.Is):
            m = src(ge.generators[0].target)
            if {src(ge.elt.left), src(ge.elt.comparators[0])} == {m, ref}:
                return True
    return False


#: names whose having an anchor says nothing about the *old* node (the
#: replacement node always has the attribute); set by d1_guards
_NOT_THE_OLD_NODE: Set[str] = set()


def _is_anchor(e: ast.AST) -> bool:
    return isinstance(e, ast.Call) and src(e.func) == "hasattr" and \
        len(e.args) == 2 and isinstance(e.args[1], ast.Constant) and \
        e.args[1].value == "anchor" and \
        src(e.args[0]) not in _NOT_THE_OLD_NODE


def _pos_parts(e: ast.AST, data: str, par: str, ref: str) -> Set[str]:
    out: Set[str] = set()
    if isinstance(e, ast.Compare) and len(e.ops) == 1:
        l, r = src(e.left), src(e.comparators[0])
        if isinstance(e.ops[0], ast.Is) and {l, r} == {data, par}:
            out.add("container")
        if isinstance(e.ops[0], ast.Eq) and ref in (l, r):
            out.add("key")
        if isinstance(e.ops[0], ast.In) and l == ref:
            out.add("key")
    return out


def _implies_pos_or_anchor(e: ast.AST, data: str, par: str, ref: str,
                           container_only_ok: bool) -> Optional[str]:
    """Does truth of ``e`` imply (position or anchor)?"""
    if _is_anchor(e):
        return "anchor"
    if isinstance(e, ast.BoolOp) and isinstance(e.op, ast.Or):
        kinds = [_implies_pos_or_anchor(v, data, par, ref, container_only_ok)
                 for v in e.values]
        if all(kinds):
            return "+".join(sorted(set(kinds)))  # type: ignore[arg-type]
        return None
    parts: Set[str] = set()
    conj = e.values if isinstance(e, ast.BoolOp) and \
        isinstance(e.op, ast.And) else [e]
    for c in conj:
        if _is_anchor(c):
            return "anchor"
        parts |= _pos_parts(c, data, par, ref)
    if {"container", "key"} <= parts:
        return "position"
    if container_only_ok and "container" in parts:
        return "position(set)"
    return None


def store_sites(fi: FuncInfo) -> List[Tuple[ast.AST, str]]:
    data, par, pref, ref, repl = fi.params()
    out: List[Tuple[ast.AST, str]] = []
    for n in walk_local(fi.node):
        if isinstance(n, ast.Assign) and len(n.targets) == 1 and \
                isinstance(n.targets[0], ast.Subscript) and \
                src(n.targets[0].value) == data:
            if src(n.value) == repl:
                out.append((n, "value-store"))
            elif src(n.targets[0].slice) == repl:
                out.append((n, "key-store"))
        elif isinstance(n, ast.Call) and isinstance(n.func, ast.Attribute) \
                and src(n.func.value) == data and \
                n.func.attr in ("insert", "add", "append", "update",
                                "setdefault") and \
                any(src(a) == repl for a in n.args):
            kind = "key-store" if n.func.attr == "insert" and \
                len(n.args) >= 2 and src(n.args[1]) == repl else \
                "member-store" if n.func.attr == "add" else "value-store"
            out.append((n, kind))
    return out


def _branch_of(fi: FuncInfo, node: ast.AST) -> str:
    """Container-kind branch of recurse() the site lives in."""
    best = "?"
    for a in ancestors(node):
        if isinstance(a, ast.If) and "isinstance" in src(a.test):
            t = src(a.test)
            for k, label in (("CommentedMap", "map"), ("CommentedSeq", "seq"),
                             ("CommentedSet", "set"),
                             ("OrderedDict", "ordereddict"), ("dict", "dict")):
                if k in t:
                    best = label
                    break
            if parent(a) is fi.node or not isinstance(parent(a), ast.If) \
                    or True:
                pass
    # the ladder is if/elif: the innermost isinstance-If whose body holds us
    cur: ast.AST = node
    for a in ancestors(node):
        if isinstance(a, ast.If) and "isinstance" in src(a.test) and \
                cur in a.body:
            t = src(a.test)
            for k, label in (("CommentedMap", "map"), ("CommentedSeq", "seq"),
                             ("CommentedSet", "set"),
                             ("OrderedDict", "ordereddict"), ("dict", "dict")):
                if k in t:
                    return label
        cur = a
    return best


def d1_guards(chk: Check) -> None:
    prog = chk.prog
    chk.rule("C03-D1", "every store of the replacement node is dominated by "
             "an identity test against the old node and by a position test "
             "(container is the addressed parent, key equals parentref) or "
             "an anchor test", floor=8)
    chk.rule("C03-D1s", "the container-kind branches of the replacement "
             "routine impose the same guard classes on value stores",
             floor=1)
    fi = recurse_fn(prog)
    chk.analysed(fi)
    data, par, pref, ref, repl = fi.params()
    _NOT_THE_OLD_NODE.clear()
    _NOT_THE_OLD_NODE.add(repl)
    sites = store_sites(fi)
    if len(sites) < 8:
        raise AnalysisError("only {} store sites found in recurse()".format(
            len(sites)))
    by_branch: Dict[str, Set[str]] = {}
    for node, kind in sites:
        facts = _site_facts(fi, node)
        ident = any(f.pol and _is_identity(f.expr, ref, data) for f in facts)
        branch = _branch_of(fi, node)
        guard = None
        for f in facts:
            if f.pol:
                g = _implies_pos_or_anchor(f.expr, data, par, pref,
                                           container_only_ok=(branch == "set"))
                if g:
                    guard = g
        # conjunction spread over several atomic facts
        if guard is None:
            parts: Set[str] = set()
            for f in facts:
                if f.pol:
                    if _is_anchor(f.expr):
                        guard = "anchor"
                    parts |= _pos_parts(f.expr, data, par, pref)
            if guard is None and {"container", "key"} <= parts:
                guard = "position"
        text = "{} [{} branch] {}".format(kind, branch, src(node)[:60])
        key = "{} in the {} branch".format(kind, branch)
        if ident and guard:
            chk.ok("C03-D1", fi, node, text,
                   "identity with `{}` and {} guard".format(ref, guard))
            if kind == "value-store":
                by_branch.setdefault(branch, set()).update(
                    guard.replace("(set)", "").split("+"))
        elif not ident:
            chk.fail("C03-D1", fi, node, key,
                     "`{}` stores the new node without testing that the "
                     "slot holds the old node (`is {}`): bystanders are "
                     "overwritten".format(src(node)[:60], ref))
        else:
            chk.fail("C03-D1", fi, node, key,
                     "`{}` replaces every slot holding the same object as "
                     "the old node, with neither a position test (`{} is "
                     "{}` and key == `{}`) nor an anchor test: scalars "
                     "that merely share an object (equal small values, "
                     "interned strings) are changed too".format(
                         src(node)[:60], data, par, pref))
    want = {"anchor", "position"}
    vs = {b: g for b, g in by_branch.items() if b in ("map", "seq",
                                                      "ordereddict", "dict")}
    if vs and all(g == want for g in vs.values()) and len(vs) >= 4:
        chk.ok("C03-D1s", fi, fi.node, "value stores of {}".format(
            sorted(vs)), "all branches: anchor or position")
    else:
        chk.fail("C03-D1s", fi, fi.node, "sibling branches",
                 "the container-kind branches do not impose the same guard "
                 "classes on value stores: {}".format(
                     {b: sorted(g) for b, g in by_branch.items()}))


def d2_sole_writers(chk: Check) -> None:
    prog = chk.prog
    chk.rule("C03-D2", "on the write path of set_value the document is "
             "mutated only by the replacement routine, the key-rename block "
             "and the tail-creation sites", floor=8)
    root = prog.func("Processor.set_value")
    cl = [f for f in closure(prog, [root])
          if not f.short.startswith("ConsolePrinter.")]
    read = {f.qual for f in c09.read_closure(prog)}
    allowed = {"Processor._update_node.recurse", "Processor._apply_change",
               "Processor._get_optional_nodes", "Nodes.append_list_element",
               "Nodes.apply_yaml_tag"}
    ef = Effects(prog)
    ef.summarise(cl)
    for fi in cl:
        if fi.qual in read and fi.short not in allowed:
            continue      # the read path is C09-D1's subject
        chk.analysed(fi)
        for site in mutation_sites(fi):
            cls, detail = ef.classify(site)
            if cls != "doc":
                continue
            text = "{} on {}".format(site.how, src(site.receiver))
            if fi.short in allowed:
                chk.ok("C03-D2", fi, site.node, text,
                       "document writer " + fi.short)
            else:
                chk.fail("C03-D2", fi, site.node, text,
                         "`{}` mutates the document outside the designated "
                         "writers".format(site.text[:60]))
        for call, callee, param, arg in ef.calls_mutating_doc(fi):
            if fi.short in allowed or callee.short in allowed:
                chk.ok("C03-D2", fi, call, "call " + callee.short,
                       "hands the document to a designated writer", False)
            else:
                chk.fail("C03-D2", fi, call, "call " + callee.short,
                         "document data passed to `{}`, which mutates its "
                         "parameter `{}`".format(callee.short, param))


def d3_anchor(chk: Check) -> None:
    prog = chk.prog
    chk.rule("C03-D3", "every construction of the replacement scalar keeps "
             "the old node's anchor (anchored twin under a hasattr test, "
             "anchor handed to the typed helper, or recursion on the old "
             "node)", floor=6)
    fi = prog.func("Nodes.make_new_node")
    chk.analysed(fi)
    source = fi.params()[0]
    result = None
    for n in walk_local(fi.node):
        if isinstance(n, ast.Return) and isinstance(n.value, ast.Name):
            result = n.value.id
    if result is None:
        raise AnalysisError("make_new_node result variable not found")
    n_sites = 0
    for n in walk_local(fi.node):
        if not (isinstance(n, ast.Assign) and src(n.targets[0]) == result
                and isinstance(n.value, ast.Call)):
            continue
        call = n.value
        fs = src(call.func)
        text = src(n)[:80]
        if fs.endswith("apply_yaml_tag"):
            continue
        n_sites += 1
        kw = {k.arg: k.value for k in call.keywords}
        if "anchor" in kw:
            ok = any(_is_anchor(f.expr) and f.pol and
                     src(f.expr.args[0]) == source  # type: ignore
                     for f in facts_at(n)) and \
                src(kw["anchor"]).startswith(source + ".anchor")
            if ok:
                chk.ok("C03-D3", fi, n, text, "anchored constructor under "
                       "hasattr({}, 'anchor')".format(source))
            else:
                chk.fail("C03-D3", fi, n, text,
                         "anchor taken from somewhere other than the old "
                         "node")
            continue
        if fs.endswith("make_new_node"):
            if call.args and src(call.args[0]) == source:
                chk.ok("C03-D3", fi, n, text, "recursion on the old node")
            else:
                chk.fail("C03-D3", fi, n, text,
                         "recursion does not pass the old node")
            continue
        if "make_" in fs and fs.endswith("_node"):
            last = call.args[-1] if call.args else None
            ok = False
            if isinstance(last, ast.Name):
                blk = parent(n)
                body = getattr(blk, "body", [])
                prev = body[:body.index(n)] if n in body else []
                for s in reversed(prev):
                    if isinstance(s, ast.If) and _is_anchor(s.test) and any(
                            isinstance(x, ast.Assign) and
                            src(x.targets[0]) == last.id and
                            src(x.value).startswith(source + ".anchor")
                            for x in s.body):
                        ok = True
                        break
            if ok:
                chk.ok("C03-D3", fi, n, text,
                       "anchor value of the old node handed to the helper")
            else:
                chk.fail("C03-D3", fi, n, text,
                         "typed helper is not given the old node's anchor")
            continue
        # plain constructor: must be the else-twin of an anchored one
        twin = False
        p = parent(n)
        if isinstance(p, ast.If) and n in p.orelse:
            twin = _anchored_if(p, source, result)
        else:
            for a in ancestors(n):
                if isinstance(a, ast.If) and n in a.orelse:
                    twin = _anchored_if(a, source, result)
                    break
                if isinstance(a, ast.If) and any(
                        n in getattr(x, "body", []) for x in a.orelse
                        if isinstance(x, ast.If)):
                    twin = _anchored_if(a, source, result)
                    break
        if twin:
            chk.ok("C03-D3", fi, n, text,
                   "un-anchored twin of an anchored constructor")
        else:
            chk.fail("C03-D3", fi, n, text,
                     "replacement scalar is built without the old node's "
                     "anchor: aliases of the changed node would dangle")
    if n_sites < 5:
        raise AnalysisError("only {} constructor sites in make_new_node"
                            .format(n_sites))


def _anchored_if(node: ast.If, source: str, result: str) -> bool:
    conds = [node.test]
    if isinstance(node.test, ast.BoolOp):
        conds = list(node.test.values)
    if not any(_is_anchor(c) and src(c.args[0]) == source  # type: ignore
               for c in conds):
        return False
    for s in node.body:
        if isinstance(s, ast.Assign) and src(s.targets[0]) == result and \
                isinstance(s.value, ast.Call) and any(
                    k.arg == "anchor" for k in s.value.keywords):
            return True
    return False


def d4_d5(chk: Check) -> None:
    prog = chk.prog
    chk.rule("C03-D4", "ValueError from the typed-node construction is "
             "converted to TypeMismatchYAMLPathException at the call site "
             "in _apply_change", floor=1)
    chk.rule("C03-D5", "_update_node finds the old node at the "
             "coordinates' own (parent, parentref) and starts the "
             "replacement on the whole document", floor=2)
    ac = prog.func("Processor._apply_change")
    chk.analysed(ac)
    calls = [n for n in walk_local(ac.node) if isinstance(n, ast.Call)
             and src(n.func).endswith("._update_node")]
    if len(calls) != 1:
        raise AnalysisError("_update_node call in _apply_change not found")
    call = calls[0]
    conv = False
    for a in ancestors(call):
        if isinstance(a, ast.Try) and any(call is c for s in a.body
                                          for c in walk_local(s)):
            for h in a.handlers:
                if "ValueError" in handler_names(h) and any(
                        isinstance(r, ast.Raise) and r.exc is not None and
                        "TypeMismatchYAMLPathException" in src(r.exc)
                        for r in walk_local(h)):
                    conv = True
    if conv:
        chk.ok("C03-D4", ac, call, src(call)[:60],
               "inside try/except ValueError -> "
               "TypeMismatchYAMLPathException")
    else:
        chk.fail("C03-D4", ac, call, src(call)[:60],
                 "an impossible conversion (ValueError) is no longer "
                 "reported as TypeMismatchYAMLPathException")
    # arguments: the coordinate's own parent / parentref
    coord = ac.params()[2]
    if len(call.args) >= 2 and src(call.args[0]) == coord + ".parent" and \
            src(call.args[1]) == coord + ".parentref":
        chk.ok("C03-D5", ac, call, "arguments",
               "({0}.parent, {0}.parentref)".format(coord))
    else:
        chk.fail("C03-D5", ac, call, "arguments",
                 "_update_node is not given the matched coordinate's own "
                 "parent and parentref")
    un = prog.func("Processor._update_node")
    par, pref = un.params()[1], un.params()[2]
    rc = [n for n in un.node.body if isinstance(n, ast.Expr) and
          isinstance(n.value, ast.Call) and src(n.value.func) == "recurse"]
    if len(rc) != 1:
        raise AnalysisError("recurse() start call not found")
    args = [src(a) for a in rc[0].value.args]
    change = args[3] if len(args) == 5 else None
    ok = len(args) == 5 and args[0] == "self.data" and args[1] == par and \
        args[2] == pref
    # the old node is parent[parentref] (or the equal set member)
    defs = [n for n in walk_local(un.node) if isinstance(n, ast.Assign)
            and src(n.targets[0]) == change]
    found = any(src(d.value) == "{}[{}]".format(par, pref) for d in defs)
    # every definition yields an object that *is in* the container: the
    # subscript, or the variable of a loop over the container.  (The key
    # text from the path equals a set member but is not the member: it has
    # no anchor and is not the object the aliases share.)
    from sa.coords import loop_binding
    foreign = []
    for d in defs:
        v = d.value
        if isinstance(v, ast.Constant) and v.value is None:
            continue
        if src(v) == "{}[{}]".format(par, pref):
            continue
        if isinstance(v, ast.Name):
            lb = loop_binding(v.id, d)
            if lb is not None and src(lb[1]) == par:
                continue
            # the parentref of a set member is the member itself (C02-D1s
            # decides that for every producer of coordinates), so under a
            # presence test it is an object out of the container
            if v.id == pref and any(
                    f.kind == "cond" and f.pol and
                    src(f.expr).replace(" ", "") == "{}in{}".format(pref, par)
                    for f in facts_at(d)):
                continue
        foreign.append(d)
    if foreign:
        chk.fail("C03-D5", un, foreign[0], src(foreign[0])[:60],
                 "the node to replace is taken from `{}`, not out of the "
                 "container: it is not the object that the document (and "
                 "the aliases of an anchored member) hold, so the identity "
                 "search replaces nothing but the set entry and the anchor "
                 "is lost".format(src(foreign[0].value)))
    if ok and found:
        chk.ok("C03-D5", un, rc[0], src(rc[0])[:70],
               "whole document, coordinates' own parent/parentref, old node "
               "= {}[{}]".format(par, pref))
    else:
        chk.fail("C03-D5", un, rc[0], src(rc[0])[:70],
                 "the replacement is not started on the whole document with "
                 "the node found at (parent, parentref)")


def d12_integers_are_exact(chk: Check) -> None:
    """An integer handed to the INT arm of make_new_node is stored exactly.
    Python integers are unbounded; a detour through `float()` rounds
    everything above 2**53 to the nearest double (an epoch in nanoseconds,
    a 64-bit id), and the anchor and all its aliases then hold another
    number than the one that was set."""
    prog = chk.prog
    chk.rule("C03-D12", "the INT arm of make_new_node converts with int() "
             "on the supplied value, never through float()", floor=1)
    fi = prog.func("Nodes.make_new_node")
    arms = [n for n in walk_local(fi.node) if isinstance(n, ast.If) and
            src(n.test).endswith("YAMLValueFormats.INT")]
    if len(arms) != 1:
        raise AnalysisError("INT arm of make_new_node not found")
    arm = arms[0]
    value = fi.params()[1]
    floats = [c for st in arm.body for c in ast.walk(st)
              if isinstance(c, ast.Call) and src(c.func) in
              ("float", "Decimal", "round", "math.floor", "math.trunc")]
    ints = [c for st in arm.body for c in ast.walk(st)
            if isinstance(c, ast.Call) and src(c.func) == "int"]
    if floats:
        chk.fail("C03-D12", fi, floats[0], "INT arm: `{}`".format(
            src(floats[0])[:40]),
            "the value passes through `{}` on its way to the integer node: "
            "integers above 2**53 are silently rounded".format(
                src(floats[0].func)))
    elif len(ints) == 1 and ints[0].args and src(ints[0].args[0]) == value:
        chk.ok("C03-D12", fi, ints[0], "INT arm: `{}`".format(src(ints[0])),
               "exact conversion of the supplied value")
    else:
        chk.fail("C03-D12", fi, arm, "INT arm",
                 "the integer is not produced by int(<supplied value>): {}"
                 .format([src(c)[:30] for c in ints]))


def d13_callers_choices_unaltered(chk: Check) -> None:
    """_update_node hands the caller's value, format and tag to
    make_new_node as they were given.  In particular the tag: a tag of None
    means "none requested", and make_new_node can only tag *text* -- taking
    the old node's tag for it wraps an integer / boolean / null in a
    TaggedScalar that the document can no longer be dumped with."""
    prog = chk.prog
    chk.rule("C03-D13", "_update_node passes its value, value_format and "
             "tag parameters to make_new_node unmodified (no assignment to "
             "them on the way)", floor=3)
    fi = prog.func("Processor._update_node")
    calls = [c for c in walk_local(fi.node) if isinstance(c, ast.Call) and
             src(c.func).endswith("make_new_node")]
    if len(calls) != 1:
        raise AnalysisError("make_new_node call of _update_node not found")
    c = calls[0]
    passed = [a for a in c.args[1:]] + [k.value for k in c.keywords]
    params = set(fi.params())
    stores = {}
    for n in walk_local(fi.node):
        if isinstance(n, ast.Name) and isinstance(n.ctx, ast.Store) and \
                n.id in params:
            stores.setdefault(n.id, []).append(n)
    for a in passed:
        text = "make_new_node(..., {})".format(src(a))
        if not (isinstance(a, ast.Name) and a.id in params):
            chk.fail("C03-D13", fi, c, text,
                     "the argument is not one of _update_node's own "
                     "parameters")
        elif a.id in stores:
            chk.fail("C03-D13", fi, stores[a.id][0], text,
                     "`{}` is re-bound inside _update_node before it "
                     "reaches make_new_node: the node built is not the one "
                     "the caller asked for (a tag taken over from the old "
                     "node wraps a non-text value in a TaggedScalar, which "
                     "cannot be dumped)".format(a.id))
        else:
            chk.ok("C03-D13", fi, c, text, "the caller's own choice")


def run(chk: Check) -> None:
    d1_guards(chk)
    d2_sole_writers(chk)
    d3_anchor(chk)
    d4_d5(chk)
    # tail creation (create-then-set histories): padded list slots must be
    # distinct objects, or a later set through one slot changes bystanders
    from rules.c09 import padding_fresh
    padding_fresh(chk, "C03-D2b",
                  chk.prog.func("Processor._get_optional_nodes"))
    d1m_own_entries(chk)
    d3b_retry_forwards_value(chk)
    d7_float_presentation(chk)
    d7b_float_precision(chk)
    d8_type_ladders(chk)
    d9_rename_position(chk)
    d10_twin_arms(chk)
    d12_integers_are_exact(chk)
    d13_callers_choices_unaltered(chk)
    d14_anchor_is_written(chk)
    d15_options_survive_recursion(chk)
    d16_no_equality_shortcut(chk)
    d17_every_match_is_changed(chk)
    d18_inferred_format_is_used_as_inferred(chk)
    d19_no_local_time_conversions(chk)
    d20_int_arm_keeps_the_refusal(chk)
    d8b_exact_kind_ladder(chk)
    d7c_presentation_set_in_one_place(chk)
    from rules.shared import shared_state_rule
    shared_state_rule(chk, "C03-D11", ("yamlpath/processor.py",
                                   "yamlpath/common/nodes.py"), 45)
    from rules.c10 import d5_no_live_mutation
    d5_no_live_mutation(chk, "C03-D6", ("yamlpath/processor.py",
                                         "yamlpath/common/nodes.py"))


def d15_options_survive_recursion(chk: Check) -> None:
    """An option taken out of `kwargs` with `.pop()` is gone from the
    dictionary; a function that afterwards calls itself with `**kwargs`
    (to apply the same change to every result of a Collector, say) must
    hand the option on by name, or the inner call works with the default:
    `set_value("(a)+(b)", "5", value_format=DQUOTE)` stores the integer 5."""
    prog = chk.prog
    chk.rule("C03-D15", "a self-recursive call with **kwargs names every "
             "option its function has already popped from kwargs", floor=2)
    n = 0
    for rel in ("yamlpath/processor.py", "yamlpath/common/nodes.py"):
        for fi in prog.funcs_in(rel):
            pops = [(c.args[0].value, c.lineno) for c in walk_local(fi.node)
                    if isinstance(c, ast.Call) and
                    isinstance(c.func, ast.Attribute) and
                    c.func.attr == "pop" and
                    src(c.func.value) == "kwargs" and c.args and
                    isinstance(c.args[0], ast.Constant)]
            if not pops:
                continue
            for c in walk_local(fi.node):
                if not (isinstance(c, ast.Call) and
                        src(c.func).split(".")[-1] == fi.node.name and
                        any(k.arg is None and src(k.value) == "kwargs"
                            for k in c.keywords)):
                    continue
                kws = {k.arg for k in c.keywords if k.arg}
                gone = [name for name, ln in pops if ln < c.lineno]
                n += 1
                text = "{}: recursion at `{}`".format(fi.short, src(c)[:50])
                lost = [g for g in gone if g not in kws]
                if lost:
                    chk.fail("C03-D15", fi, c, text,
                             "option(s) {} were popped from kwargs before "
                             "this call and are not passed on: the nodes "
                             "reached through the recursion (Collector "
                             "results) are written with the default format "
                             "/ without the tag".format(lost))
                else:
                    chk.ok("C03-D15", fi, c, text,
                           "passes on {}".format(gone or "nothing popped "
                                                 "yet"))
    if n < 2:
        raise AnalysisError("self-recursive **kwargs calls found: {}".format(n))


def d16_no_equality_shortcut(chk: Check) -> None:
    """Whether a node "already holds" the new value cannot be decided with
    `==`: 1 == True == 1.0, "5" and 5 are told apart only by the format the
    caller asked for, and a tag or quoting style may be all that changes.
    The change routines therefore never compare the new value with what is
    in the document (the only tests on it are key-membership for a rename
    and null / sign tests on the value alone)."""
    prog = chk.prog
    chk.rule("C03-D16", "on the set path, the new value is not compared for "
             "equality with a node of the document (no skip-when-equal "
             "shortcut)", floor=4)
    n = 0
    for fi in closure(prog, [prog.func("Processor.set_value")]):
        if not fi.module.relpath.endswith(("processor.py", "nodes.py")):
            continue
        ps = [p_ for p_ in fi.params() if p_ in ("value", "new_value")]
        if not ps:
            continue
        n += 1
        bad = None
        for c in walk_local(fi.node):
            if not (isinstance(c, ast.Compare) and len(c.ops) == 1 and
                    isinstance(c.ops[0], (ast.Eq, ast.NotEq))):
                continue
            sides = [c.left, c.comparators[0]]
            mine = [x for x in sides if src(x) in ps]
            other = [x for x in sides if src(x) not in ps]
            if mine and other and not isinstance(other[0], ast.Constant):
                bad = c
                break
        text = "{}: comparisons of `{}`".format(fi.short, ps[0])
        if bad is None:
            chk.ok("C03-D16", fi, fi.node, text, "none with a document "
                   "node")
        else:
            chk.fail("C03-D16", fi, bad, text,
                     "`{}` decides by equality whether the change is "
                     "needed: 1 == True == 1.0 and a format or tag request "
                     "does not show in `==`, so `set_value(p, True)` on a "
                     "node holding 1 (or a DQUOTE request on equal text) "
                     "leaves the document as it was".format(src(bad)))
    if n < 4:
        raise AnalysisError("functions taking the new value on the set "
                            "path: {}".format(n))


def d17_every_match_is_changed(chk: Check) -> None:
    """set_value changes *every* node its query matches.  Whether two
    matches are "the same node" cannot be told from the Python object:
    equal small integers, booleans, nulls and short strings are one
    interned object, yet they sit at different places of the document.  The
    match loops of set_value therefore hand each match to _apply_change
    unconditionally (aliases are followed later, by position or anchor)."""
    prog = chk.prog
    chk.rule("C03-D17", "each match loop of set_value applies the change to "
             "every match: no skip (continue / break / conditional call) "
             "and no id()-keyed bookkeeping of nodes", floor=2)
    fi = prog.func("Processor.set_value")
    n = 0
    for loop in walk_local(fi.node):
        if not isinstance(loop, ast.For):
            continue
        it = src(loop.iter)
        if "_get_required_nodes" not in it and \
                "_get_optional_nodes" not in it:
            continue
        n += 1
        text = "for {} in {}".format(src(loop.target), it[:50])
        applies = [st for st in loop.body if isinstance(st, ast.Expr) and
                   isinstance(st.value, ast.Call) and
                   src(st.value.func).endswith("_apply_change")]
        jumps = [x for st in loop.body for x in ast.walk(st)
                 if isinstance(x, (ast.Continue, ast.Break))]
        ids = [x for st in loop.body for x in ast.walk(st)
               if isinstance(x, ast.Call) and src(x.func) == "id"]
        if applies and not jumps and not ids:
            chk.ok("C03-D17", fi, loop, text, "_apply_change for every "
                   "match")
        else:
            chk.fail("C03-D17", fi, (jumps or ids or [loop])[0], text,
                     "some matches are skipped{}: equal small ints, "
                     "booleans, nulls and one-character strings are one "
                     "interned object, so `[1, 1, 2]` set through `*` "
                     "becomes `[9, 1, 9]`".format(
                         " by object identity (id())" if ids else ""))
    if n < 2:
        raise AnalysisError("match loops of set_value: {}".format(n))


def d7c_presentation_set_in_one_place(chk: Check) -> None:
    """How a float is written (width, precision, sign, exponent) is decided
    by make_float_node from the *new* value (C03-D7 folds that routine).
    A later store to one of those fields -- e.g. the old node's number of
    decimals copied onto the replacement -- makes ruamel round the value
    when the document is dumped: in memory 2.125, in the file 2.1."""
    prog = chk.prog
    chk.rule("C03-D7c", "no store to a presentation field of a scalar node "
             "(_width, _prec, _exp, _m_sign, _m_lead0, _e_width, _e_sign, "
             "_underscore) anywhere in nodes.py / processor.py", floor=40)
    fields = {"_width", "_prec", "_exp", "_m_sign", "_m_lead0", "_e_width",
              "_e_sign", "_underscore"}
    n = 0
    for rel in ("yamlpath/common/nodes.py", "yamlpath/processor.py"):
        for fi in prog.funcs_in(rel):
            n += 1
            bad = [t for t in walk_local(fi.node)
                   if isinstance(t, ast.Attribute) and t.attr in fields and
                   isinstance(t.ctx, ast.Store)]
            if bad:
                chk.fail("C03-D7c", fi, bad[0], "{}: `{} = ...`".format(
                    fi.short, src(bad[0])),
                    "the presentation of the replacement node is changed "
                    "after make_float_node derived it from the new value: "
                    "a width / precision that does not fit the value makes "
                    "the dumped text a different number")
            else:
                chk.ok("C03-D7c", fi, fi.node, fi.short, "no such store",
                       False)
    if n < 40:
        raise AnalysisError("functions examined: {}".format(n))


def d18_inferred_format_is_used_as_inferred(chk: Check) -> None:
    """With the DEFAULT format make_new_node infers the presentation from
    the new value itself (`YAMLValueFormats.from_node`) and hands that on.
    Overriding the inference for a class of values -- "multi-line text
    reads better as a literal block" -- picks a presentation the value may
    not survive: a first line that starts with a blank, a CR, trailing
    blanks are written with a wrong indentation indicator, and the edited
    document no longer reloads to the data that was set."""
    prog = chk.prog
    chk.rule("C03-D18", "the format inferred by from_node() in make_new_node "
             "is bound once and not re-assigned before it is used",
             floor=1)
    fi = prog.func("Nodes.make_new_node")
    defs = [a for a in walk_local(fi.node) if isinstance(a, ast.Assign) and
            isinstance(a.value, ast.Call) and
            src(a.value.func).endswith("from_node")]
    if len(defs) != 1:
        raise AnalysisError("format inference of make_new_node not found")
    name = src(defs[0].targets[0])
    others = [x for x in walk_local(fi.node) if isinstance(x, ast.Name) and
              x.id == name and isinstance(x.ctx, ast.Store) and
              x is not defs[0].targets[0]]
    if others:
        chk.fail("C03-D18", fi, others[0], "`{}` re-assigned".format(name),
                 "the inferred format is replaced for some values: the "
                 "presentation chosen (a block scalar for any multi-line "
                 "text, say) cannot carry every such value, so the written "
                 "document reloads to other text or not at all")
    else:
        chk.ok("C03-D18", fi, defs[0], src(defs[0]), "used as inferred")


def d19_no_local_time_conversions(chk: Check) -> None:
    """`datetime.astimezone()` on a *naive* value assumes the host's local
    time zone.  A timestamp given as text without an offset would be
    shifted by whatever offset the machine running yamlpath has (none on a
    UTC build host, which is why no test notices).  The node builders do
    not convert between zones at all."""
    prog = chk.prog
    chk.rule("C03-D19", "no astimezone() / localtime-dependent conversion "
             "in the node builders of nodes.py unless the value is known "
             "to carry a tzinfo", floor=10)
    n = 0
    for fi in prog.funcs_in("yamlpath/common/nodes.py"):
        n += 1
        bad = []
        for c in walk_local(fi.node):
            if isinstance(c, ast.Call) and isinstance(c.func, ast.Attribute) \
                    and c.func.attr in ("astimezone", "fromtimestamp",
                                        "timestamp", "localtime", "mktime"):
                recv = src(c.func.value)
                aware = any(f.kind == "cond" and f.pol and
                            "tzinfo" in src(f.expr) and
                            "is not None" in src(f.expr)
                            for f in facts_at(c))
                if not aware:
                    bad.append(c)
        if bad:
            chk.fail("C03-D19", fi, bad[0], "{}: `{}`".format(
                fi.short, src(bad[0])[:50]),
                "a naive datetime is interpreted in the host's local zone: "
                "the stored value differs from the one that was set by the "
                "machine's UTC offset")
        else:
            chk.ok("C03-D19", fi, fi.node, fi.short, "none", False)
    if n < 10:
        raise AnalysisError("functions examined: {}".format(n))


def d20_int_arm_keeps_the_refusal(chk: Check) -> None:
    """`wrap_type` finds the kind of a value with literal_eval but builds an
    integer node from the *original* text: `ScalarInt("0x1F")` raises
    ValueError, which is the signal the DEFAULT branch of make_new_node
    relies on to store such look-alike text as text.  Built from the
    evaluated number instead, `0x1F` / `0o17` / `(7)` are inferred as INT
    and the set is refused (or, when creating, the evaluated number is
    planted in the padding before the failure)."""
    prog = chk.prog
    chk.rule("C03-D20", "wrap_type builds its ScalarInt from the value it "
             "was given, not from the literal-evaluated number", floor=1)
    fi = prog.func("Nodes.wrap_type")
    val = fi.params()[0]
    calls = [c for c in walk_local(fi.node) if isinstance(c, ast.Call) and
             src(c.func) == "ScalarInt"]
    if not calls:
        raise AnalysisError("ScalarInt construction of wrap_type not found")
    for c in calls:
        text = "wrap_type: {}".format(src(c))
        if c.args and src(c.args[0]) == val:
            chk.ok("C03-D20", fi, c, text, "int() semantics of the text")
        else:
            chk.fail("C03-D20", fi, c, text,
                     "the node is built from the evaluated number: text "
                     "that literal_eval reads as an integer but int() "
                     "refuses (0x1F, 0o17, 0b101, (7)) no longer raises "
                     "ValueError here, so it is no longer stored as text")


def d8b_exact_kind_ladder(chk: Check) -> None:
    """`wrap_type` picks the wrapper by the *exact* class of the evaluated
    value (`typ is date`, `typ is datetime`, `typ is bool`, `typ is int`).
    Exactness matters because of Python's subclassing: a datetime is a
    date, a bool is an int.  An `isinstance` arm for a base class placed
    before the arm of one of its subclasses swallows it -- every date-time
    value is rebuilt as a date only and loses its time of day."""
    from sa.ladders import is_sub
    prog = chk.prog
    chk.rule("C03-D8b", "no isinstance arm of wrap_type's kind ladder "
             "stands before the arm of a subclass of its class", floor=6)
    fi = prog.func("Nodes.wrap_type")
    heads = [st for st in fi.node.body if isinstance(st, ast.If)]
    if not heads:
        raise AnalysisError("kind ladder of wrap_type not found")
    arms = []
    cur = heads[-1]
    while cur is not None:
        t = cur.test
        kind = cls = None
        if isinstance(t, ast.Compare) and len(t.ops) == 1 and \
                isinstance(t.ops[0], ast.Is):
            kind, cls = "is", src(t.comparators[0])
        elif isinstance(t, ast.Call) and src(t.func) == "isinstance" and \
                len(t.args) == 2:
            kind, cls = "isinstance", src(t.args[1])
        arms.append((cur, kind, cls))
        cur = cur.orelse[0] if len(cur.orelse) == 1 and \
            isinstance(cur.orelse[0], ast.If) else None
    for i, (node, kind, cls) in enumerate(arms):
        text = "wrap_type arm {}: {}".format(i + 1, src(node.test)[:40])
        if kind != "isinstance":
            chk.ok("C03-D8b", fi, node, text, "exact class", False)
            continue
        names = [c.strip() for c in cls.strip("()").split(",")]
        later = [c2 for (_, _, c2) in arms[i + 1:] if c2]
        shadowed = [c2 for c2 in later for b in names
                    if c2 != b and is_sub(prog, c2.split(".")[-1],
                                          b.split(".")[-1])]
        if shadowed:
            chk.fail("C03-D8b", fi, node, text,
                     "isinstance({}) is also true of {}: the later arm for "
                     "it can never be taken, so such values are wrapped as "
                     "the base kind (a date-time becomes a date and loses "
                     "its time of day)".format(cls, sorted(set(shadowed))))
        else:
            chk.ok("C03-D8b", fi, node, text, "shadows no later arm")


def d14_anchor_is_written(chk: Check) -> None:
    """A replacement node carries the old node's anchor *and writes it*.
    ruamel.yaml emits an anchor only when an alias refers to the node or
    the anchor was set with always_dump; the constructors (`anchor=`) set
    it, `yaml_set_anchor(name)` by default does not.  A replacement whose
    anchor is attached that way loses `&name` in the dumped document as
    soon as no alias uses it -- in memory nothing looks wrong."""
    prog = chk.prog
    chk.rule("C03-D14", "in the routines that build replacement nodes, an "
             "anchor is attached through a constructor (`anchor=`) or by "
             "yaml_set_anchor(..., always_dump=True)", floor=6)
    roots = [prog.func("Nodes.make_new_node"),
             prog.func("Nodes.apply_yaml_tag"),
             prog.func("Nodes.clone_node")]
    n = 0
    for fi in closure(prog, roots):
        if not fi.module.relpath.endswith("common/nodes.py"):
            continue
        for c in walk_local(fi.node):
            if not isinstance(c, ast.Call):
                continue
            kw = {k.arg: k.value for k in c.keywords}
            if isinstance(c.func, ast.Attribute) and \
                    c.func.attr == "yaml_set_anchor":
                n += 1
                text = "{}: {}".format(fi.short, src(c)[:60])
                v = kw.get("always_dump")
                if v is None and len(c.args) >= 2:
                    v = c.args[1]
                if isinstance(v, ast.Constant) and v.value is True:
                    chk.ok("C03-D14", fi, c, text, "always_dump=True")
                else:
                    chk.fail("C03-D14", fi, c, text,
                             "yaml_set_anchor defaults to always_dump="
                             "False: the anchor of a node no alias refers "
                             "to is dropped when the document is written, "
                             "so an edit of `a: &x 0.5` writes `a: 0.75`")
            elif "anchor" in kw and not (
                    isinstance(c.func, ast.Attribute) and
                    c.func.attr.startswith("make_")):
                n += 1
                chk.ok("C03-D14", fi, c, "{}: {}".format(
                    fi.short, src(c)[:60]), "anchor given to the "
                    "constructor (which sets always_dump)")
    if n < 6:
        raise AnalysisError("anchor attachments in the replacement "
                            "builders: {}".format(n))


def d1m_own_entries(chk: Check) -> None:
    """A routine that stores into a ruamel mapping while walking its
    entries walks the mapping's *own* entries: the view that includes keys
    inherited through `<<:` would turn an inherited key into an explicit
    one (and write through to the hash that owns it)."""
    prog = chk.prog
    chk.rule("C03-D1m", "loops that store into a CommentedMap while "
             "iterating it iterate non_merged_items() (own entries), in the "
             "replacement routine and in its twin Anchors.replace_anchor",
             floor=2)
    for fi in (recurse_fn(prog), prog.func("Anchors.replace_anchor")):
        data = fi.params()[0]
        n_loops = 0
        for br in walk_local(fi.node):
            if not (isinstance(br, ast.If) and "CommentedMap" in src(br.test)
                    and "isinstance" in src(br.test)):
                continue
            for loop in [x for s_ in br.body for x in ast.walk(s_)
                         if isinstance(x, ast.For)]:
                it = loop.iter
                if not (isinstance(it, ast.Call) and
                        isinstance(it.func, ast.Attribute) and
                        src(it.func.value) == data):
                    continue
                stores = [x for x in walk_local(loop)
                          if isinstance(x, ast.Subscript) and
                          isinstance(x.ctx, ast.Store) and
                          src(x.value) == data]
                if not stores:
                    continue
                n_loops += 1
                text = "{}: for {} in {}".format(fi.node.name,
                                                 src(loop.target), src(it))
                if it.func.attr == "non_merged_items":
                    chk.ok("C03-D1m", fi, loop, text, "own entries only")
                else:
                    chk.fail("C03-D1m", fi, loop, text,
                             "the loop stores into `{}` while iterating "
                             "`{}()`, which includes entries inherited "
                             "through merge keys: an inherited value would "
                             "be written as an explicit key".format(
                                 data, it.func.attr))
        if n_loops == 0:
            raise AnalysisError("no storing map loop found in " + fi.short)


def d3b_retry_forwards_value(chk: Check) -> None:
    """make_new_node(..., DEFAULT) detects the format from the value's
    native type and calls itself with that format.  The retry must carry
    the caller's value: the wrapped probe is only good for its *type*
    (wrap_type builds booleans with bool(text), so its value for "false" is
    True)."""
    prog = chk.prog
    chk.rule("C03-D3b", "the self-call of make_new_node forwards the "
             "source node and the value it was given; only the format "
             "changes", floor=1)
    fi = prog.func("Nodes.make_new_node")
    chk.analysed(fi)
    p_src, p_val = fi.params()[0], fi.params()[1]
    rebinding = [n for n in walk_local(fi.node)
                 if isinstance(n, (ast.Assign, ast.AugAssign, ast.AnnAssign))
                 and src(n.targets[0] if isinstance(n, ast.Assign)
                         else n.target) in (p_src, p_val)]
    calls = [c for c in walk_local(fi.node) if isinstance(c, ast.Call) and
             src(c.func).endswith("make_new_node")]
    if not calls:
        raise AnalysisError("self-call of make_new_node not found")
    for c in calls:
        text = src(c)[:70]
        a = [src(x) for x in c.args[:2]]
        if a == [p_src, p_val] and not rebinding:
            chk.ok("C03-D3b", fi, c, text, "({}, {}) forwarded".format(
                p_src, p_val))
        else:
            chk.fail("C03-D3b", fi, c, text,
                     "the retry is given ({}) instead of the caller's "
                     "({}, {}): the value written is the probe's, not the "
                     "one asked for".format(", ".join(a), p_src, p_val))


FLOAT_SAMPLES = [100.0, 1.0, 0.0, -2.0, 1.5, -0.5, 0.25, 1000.0, 10.5,
                 5e-05, -6.25e-05, 0.000125]


def _ruamel_float_text(value: float, m_sign: Optional[str], prec: int,
                       width: int) -> str:
    """What ruamel.yaml's RoundTripRepresenter.represent_scalar_float
    prints for a ScalarFloat without exponent (trusted model, transcribed
    from ruamel.yaml 0.17: the two no-exponent arms)."""
    ms = m_sign or ""
    if prec > 0 and prec == width - 1:
        return "{}{:d}.".format(ms, abs(int(value)))
    text = "{}{:0{}.{}f}".format(ms, abs(value), width - len(ms),
                                 width - prec - 1)
    if prec == 0 or (prec == 1 and ms != ""):
        text = text.replace("0.", ".")
    return text


def d7_float_presentation(chk: Check) -> None:
    """A float written by set_value is wrapped by make_float_node with the
    presentation hints (dot position, width) ruamel prints it with.  Folded
    over sample values: the printed text must read back as the value that
    was set (a whole number given without a dot position is printed with
    its last digit moved behind the dot: 100.0 -> 10.00)."""
    from sa.peval import Const, Kind, PEval
    prog = chk.prog
    chk.rule("C03-D7", "the presentation hints make_float_node computes make "
             "ruamel print a text that reads back as the same number "
             "(folded over sample floats against a model of the "
             "representer)", floor=9)
    fi = prog.func("Nodes.make_float_node")
    chk.analysed(fi)
    pv, pa = fi.params()[0], fi.params()[1]
    pe = PEval()
    pe.watch_calls = {"ScalarFloat"}
    for v in FLOAT_SAMPLES:
        pe.specialise(fi.node.body, {pv: Const(v), pa: Kind("none")},
                      pinned=[pv, pa])
        text = "make_float_node({!r})".format(v)
        if len(pe.calls) != 1:
            raise AnalysisError(text + ": constructor call not decided")
        _, _, kw = pe.calls[0]
        vals = {k: kw.get(k) for k in ("m_sign", "prec", "width")}
        if not all(isinstance(x, Const) for x in vals.values()):
            raise AnalysisError(text + ": hints not decided by folding")
        shown = _ruamel_float_text(v, vals["m_sign"].value,
                                   vals["prec"].value, vals["width"].value)
        try:
            back = float(shown)
        except ValueError:
            back = None
        if back == v:
            chk.ok("C03-D7", fi, fi.node, text,
                   "prec={} width={} prints {!r}".format(
                       vals["prec"].value, vals["width"].value, shown))
        else:
            chk.fail("C03-D7", fi, fi.node, text,
                     "prec={} width={} makes ruamel print {!r}: the "
                     "document no longer holds the value that was set"
                     .format(vals["prec"].value, vals["width"].value, shown))


#: floats whose shortest exact text needs an exponent or more than 15
#: decimals
FLOAT_SAMPLES_LONG = [1e-20, 1e-16, 0.30000000000000004, 1.0000000000000002]


def d7b_float_precision(chk: Check) -> None:
    """The same folding as C03-D7 over floats that a fixed-point text with
    15 decimals cannot hold.  The node in memory keeps the exact value; the
    text ruamel prints for it (from the hints) reads back as another number,
    so "serializes to YAML which reloads to the same data" fails for them.
    One finding for the whole class (the repair is an exponent form of the
    hints, not a per-value tweak)."""
    from sa.peval import Const, Kind, PEval
    prog = chk.prog
    chk.rule("C03-D7b", "floats that need an exponent or more than 15 "
             "decimals are given hints that print a text reading back as "
             "the same number", floor=1)
    fi = prog.func("Nodes.make_float_node")
    pv, pa = fi.params()[0], fi.params()[1]
    pe = PEval()
    pe.watch_calls = {"ScalarFloat"}
    lost = []
    for v in FLOAT_SAMPLES_LONG:
        pe.specialise(fi.node.body, {pv: Const(v), pa: Kind("none")},
                      pinned=[pv, pa])
        if len(pe.calls) != 1:
            raise AnalysisError("make_float_node({!r}): constructor call "
                                "not decided".format(v))
        _, _, kw = pe.calls[0]
        if kw.get("exp") is not None or kw.get("e_width") is not None:
            continue        # an exponent form: outside the model, accepted
        vals = {k: kw.get(k) for k in ("m_sign", "prec", "width")}
        if not all(isinstance(x, Const) for x in vals.values()):
            raise AnalysisError("make_float_node({!r}): hints not decided"
                                .format(v))
        shown = _ruamel_float_text(v, vals["m_sign"].value,
                                   vals["prec"].value, vals["width"].value)
        try:
            back = float(shown)
        except ValueError:
            back = None
        if back != v:
            lost.append("{!r} prints {!r}".format(v, shown))
    text = "fixed-point hints for small / long floats"
    if lost:
        chk.fail("C03-D7b", fi, fi.node, text,
                 "the hints make ruamel print a text that reads back as "
                 "another number: {}".format("; ".join(lost)))
    else:
        chk.ok("C03-D7b", fi, fi.node, text, "all samples read back exactly")


def d8_type_ladders(chk: Check) -> None:
    """The format of a new value is detected by class (from_node,
    wrap_type, make_new_node).  A date is a timestamp by inheritance
    (AnchoredDate derives from AnchoredTimeStamp, datetime from date): an
    isinstance arm for the base class placed first swallows the subclass,
    and a date written through the default format comes out as a
    timestamp."""
    from sa.ladders import shadowed_arms
    prog = chk.prog
    chk.rule("C03-D8", "in the value-format detection (enums, nodes.py) no "
             "isinstance arm is (partly) shadowed by an earlier arm for a "
             "base class", floor=1)
    # the detector must fire on a known-bad sample on every run (today's
    # code tests exact types with `is`, which cannot shadow)
    import ast as _ast
    from sa.model import set_parents

    class _F:
        pass
    sample = _ast.parse(
        "def f(node):\n"
        "    if isinstance(node, (AnchoredTimeStamp, datetime)):\n"
        "        return 1\n"
        "    elif isinstance(node, (AnchoredDate, date)):\n"
        "        return 2\n").body[0]
    set_parents(sample)
    holder = _F()
    holder.node = sample  # type: ignore[attr-defined]
    hits, _ = shadowed_arms(prog, holder)  # type: ignore[arg-type]
    if len(hits) != 1:
        raise AnalysisError("shadowed-arm detector lost its positive sample")
    chk.ok("C03-D8", None, None, "positive sample",
           "detector fires on date-after-timestamp", False)
    n_total = 0
    for fi in prog.functions.values():
        rel = fi.module.relpath
        if not (rel.startswith("yamlpath/enums/") or
                rel == "yamlpath/common/nodes.py"):
            continue
        bad, n = shadowed_arms(prog, fi)
        n_total += n
        for arm, why in bad:
            chk.fail("C03-D8", fi, arm, "{}: elif {}".format(
                fi.short, src(arm.test)[:50]), why)
        for _ in range(n - len(bad)):
            chk.ok("C03-D8", fi, fi.node, fi.short, "arm reachable", False)


def d9_rename_position(chk: Check) -> None:
    """[name()] rename in an ordered mapping: the entry keeps its position.
    The position is the index of the *key* being renamed among the keys; an
    index looked up among the values is the position of the first entry
    with an equal value, so bystander keys move."""
    from sa.coords import loop_binding, reaching_def
    prog = chk.prog
    chk.rule("C03-D9", "a renamed key is re-inserted at the index of that "
             "key among the mapping's keys", floor=1)
    fi = prog.func("Processor._apply_change")
    chk.analysed(fi)
    ins = [c for c in walk_local(fi.node) if isinstance(c, ast.Call) and
           isinstance(c.func, ast.Attribute) and c.func.attr == "insert" and
           len(c.args) == 3]
    if not ins:
        raise AnalysisError("key re-insertion of _apply_change not found")
    for c in ins:
        cont = src(c.func.value)
        pos = c.args[0]
        text = src(c)[:70]
        why = None
        if isinstance(pos, ast.Name):
            from sa.model import ancestors as _anc
            loops = [a for a in _anc(c) if isinstance(a, ast.For) and any(
                isinstance(x, ast.Name) and x.id == pos.id
                for x in ast.walk(a.target))]
            d = reaching_def(pos.id, c) if not loops else None
            if loops:
                # bound by a loop: over a snapshot comprehension of
                # enumerate(<cont>.keys()) filtered on the key
                it = loops[0].iter
                t = src(it).replace(" ", "")
                if "enumerate({}.keys())".format(cont) in t or \
                        "enumerate({})".format(cont) in t:
                    why = "index from enumerate over the keys"
            elif d is not None:
                t = src(d).replace(" ", "")
                if t.startswith(("list({}.keys()).index(".format(cont),
                                 "list({}).index(".format(cont))):
                    why = "index looked up among the keys"
        if why:
            chk.ok("C03-D9", fi, c, text, why)
        else:
            chk.fail("C03-D9", fi, c, text,
                     "the position `{}` is not derived from the mapping's "
                     "keys: the renamed entry lands where another entry "
                     "(e.g. the first one with an equal value) sits, and "
                     "the order of the bystanders changes".format(src(pos)))


def d10_twin_arms(chk: Check) -> None:
    """The node constructors come in pairs -- with and without the anchor
    of the node being replaced.  The two calls must pass the same value
    fields: an anchored timestamp built without its microseconds (or an
    anchored float without its precision) stores another value than the
    one that was set, in the anchor and every alias."""
    from sa.twins import twin_constructor_arms
    prog = chk.prog
    chk.rule("C03-D10", "the anchored and un-anchored arms of each node "
             "constructor in nodes.py pass the same value arguments",
             floor=4)
    for fi in prog.funcs_in("yamlpath/common/nodes.py"):
        for node, desc, problem in twin_constructor_arms(fi):
            text = "{}: {}".format(fi.short, desc[:70])
            if problem is None:
                chk.ok("C03-D10", fi, node, text, "arms agree")
            else:
                chk.fail("C03-D10", fi, node, text, problem)

