"""C13 -- search keywords select by their definitions.

Decided clauses (DESIGN.md section 4, C13):
  D1  keyword routing (partial evaluation per PathSearchKeywords member);
  D2  extremum scans of max/min per container branch (operator, operand
      roles, discard-before-reset, ties, discard of the rest, inversion);
  D3  grouping: unique keeps groups of size exactly one (inverted: more
      than one), distinct yields the first of every group, groups are keyed
      by the scanned value;
  D4  has_child membership with XOR inversion; parent climbs exactly the
      requested number of levels and refuses to climb above the root; name
      yields the parentref;
  D5  parameter discipline (count checked before indexing).
"""
from __future__ import annotations

import ast
from typing import Any, Dict, List, Optional, Set, Tuple

from rules import inversion
from sa.guards import facts_at
from sa.model import (AnalysisError, FuncInfo, Program, ancestors,
                      enclosing_stmt, parent, src, walk_local)
from sa.peval import Const, Enum, PEval, show
from sa.report import Check

META = {
    "explanation": (
        "Static decision over KeywordSearches: the keyword dispatcher is "
        "specialised per PathSearchKeywords member; for every container "
        "branch of max and min the scan is summarised (operator of the "
        "'new extreme' test, operand roles, discard-before-reset, tie "
        "handling with EQUALS, discard of every other candidate, inversion "
        "selecting the discard list) and compared with the definition and "
        "with its sibling; unique's size predicates are evaluated by the "
        "partial evaluator for group sizes 0..4; distinct yields element 0 "
        "of each group; group keys are the scanned values; has_child's "
        "match tests are XOR with the inversion flag; parent's climb loop "
        "runs `levels` times behind the above-the-root refusal; name "
        "yields the parentref.  Nothing is executed."),
    "declined": ["which members are selected for given values (ties, "
                 "nulls, mixed types): run-time comparison results"],
    "assumptions": ["Searches.search_matches implements the operators "
                    "(C12)"],
    "trusted_base": ["Python dict insertion order for groups"],
}

ROUTES = {"DISTINCT": "distinct", "HAS_CHILD": "has_child", "NAME": "name",
          "MAX": "max", "MIN": "min", "PARENT": "parent", "UNIQUE": "unique"}


def d1_routing(chk: Check) -> None:
    prog = chk.prog
    chk.rule("C13-D1", "each search keyword is routed to its own routine "
             "and every result is relayed", floor=8)
    fi = prog.func("KeywordSearches.search_matches")
    chk.analysed(fi)
    members = prog.enum_members("PathSearchKeywords")
    if set(members) != set(ROUTES):
        raise AnalysisError("PathSearchKeywords members changed")
    kw = None
    for n in walk_local(fi.node):
        if isinstance(n, (ast.Assign, ast.AnnAssign)) and n.value is not None \
                and src(n.value).endswith(".keyword"):
            t = n.targets[0] if isinstance(n, ast.Assign) else n.target
            kw = src(t)
    if kw is None:
        raise AnalysisError("keyword variable not found")
    pe = PEval(enum_classes={"PathSearchKeywords"})
    routines = {"KeywordSearches." + r for r in ROUTES.values()}
    for m in members:
        res = pe.specialise(fi.node.body,
                            {kw: Enum("PathSearchKeywords", m)}, pinned=[kw])
        calls = [src(c.func) for s in res for c in walk_local(s)
                 if isinstance(c, ast.Call) and src(c.func) in routines]
        if calls == ["KeywordSearches." + ROUTES[m]]:
            chk.ok("C13-D1", fi, None, m, "calls only " + ROUTES[m] + "()")
        else:
            chk.fail("C13-D1", fi, None, m,
                     "keyword {} reaches {} instead of {}()".format(
                         m, calls or "no routine", ROUTES[m]),
                     {"residual": show(res)[-400:]})
    last = fi.node.body[-1]
    if isinstance(last, ast.For) and len(last.body) == 1 and \
            isinstance(last.body[0], ast.Expr) and \
            isinstance(last.body[0].value, ast.Yield):
        chk.ok("C13-D1", fi, last, "relay loop", "yields every result")
    else:
        chk.fail("C13-D1", fi, last, "relay loop",
                 "keyword results are filtered on relay")


def _scan_loops(fi: FuncInfo) -> List[ast.For]:
    return [n for n in walk_local(fi.node) if isinstance(n, ast.For)
            and any(isinstance(c, ast.Call) and
                    src(c.func).endswith("search_matches")
                    for c in walk_local(n))]


def summarise_scan(fi: FuncInfo, loop: ast.For) -> Dict[str, Any]:
    """Summary of one extremum scan loop."""
    calls = [c for c in walk_local(loop) if isinstance(c, ast.Call)
             and src(c.func).endswith("search_matches")]
    ops = [src(c.args[0]).split(".")[-1] for c in calls if c.args]
    needles = {src(c.args[1]) for c in calls if len(c.args) > 1}
    hays = {src(c.args[2]) for c in calls if len(c.args) > 2}
    summary: Dict[str, Any] = {"ops": ops, "needles": sorted(needles),
                               "hays": sorted(hays), "problems": []}
    problems: List[str] = summary["problems"]
    if len(needles) != 1:
        problems.append("the comparisons do not all use the running "
                        "extreme as the term: {}".format(sorted(needles)))
        return summary
    extreme = needles.pop()
    if len(hays) != 1:
        problems.append("the comparisons do not all test the same "
                        "candidate: {}".format(sorted(hays)))
        return summary
    cand = hays.pop()
    summary["extreme"], summary["candidate"] = extreme, cand
    # branches: the If statements whose test contains a search_matches call
    new_branch = tie_branch = None
    for n in walk_local(loop):
        if isinstance(n, ast.If):
            cs = [c for c in walk_local(n.test) if isinstance(c, ast.Call)
                  and src(c.func).endswith("search_matches")]
            if not cs:
                continue
            op = src(cs[0].args[0]).split(".")[-1]
            if op == "EQUALS":
                tie_branch = n
            else:
                new_branch = n
                summary["op"] = op
    if new_branch is None or tie_branch is None:
        problems.append("the scan lacks a 'new extreme' or a tie branch")
        return summary
    # new extreme: extreme := candidate; old matches discarded before reset
    texts = [src(s) for s in new_branch.body]
    lists = _list_roles(fi)
    m, d = lists.get("match"), lists.get("discard")
    if not m or not d:
        problems.append("match / discard list roles not found")
        return summary
    i_set = _index(texts, "{} = {}".format(extreme, cand))
    i_ext = _index(texts, "{}.extend({})".format(d, m))
    i_reset = next((i for i, t in enumerate(texts)
                    if t.startswith(m + " = [NodeCoords(")), None)
    if i_set is None:
        problems.append("the running extreme is not updated with the "
                        "candidate")
    if i_ext is None or i_reset is None or not i_ext < i_reset:
        problems.append("the previous matches are not moved to the discard "
                        "list before the match list is reset")
    if not isinstance(new_branch.body[-1], ast.Continue):
        problems.append("the 'new extreme' branch falls through")
    # tie: append to matches
    ttexts = [src(s) for s in tie_branch.body]
    if not any(t.startswith(m + ".append(NodeCoords(") for t in ttexts) or \
            not isinstance(tie_branch.body[-1], ast.Continue):
        problems.append("a tie is not appended to the match list")
    # rest: appended to discard as the loop body's last statement
    last = loop.body[-1]
    if not src(last).startswith(d + ".append(NodeCoords("):
        problems.append("other candidates are not appended to the discard "
                        "list")
    # the first-candidate rule: `extreme is None or <compare>`
    if "{} is None".format(extreme) not in src(new_branch.test):
        problems.append("the first candidate is not accepted "
                        "unconditionally (`extreme is None or ...`)")
    return summary


def _index(texts: List[str], want: str) -> Optional[int]:
    for i, t in enumerate(texts):
        if t == want:
            return i
    return None


def _list_roles(fi: FuncInfo) -> Dict[str, str]:
    """match list / discard list: from `x = discard if invert else match`."""
    for n in walk_local(fi.node):
        if isinstance(n, ast.Assign) and isinstance(n.value, ast.IfExp):
            inv = inversion.inversion_atoms(fi)
            if src(n.value.test) in inv:
                return {"discard": src(n.value.body),
                        "match": src(n.value.orelse),
                        "result": src(n.targets[0])}
    return {}


def d2_extremes(chk: Check) -> None:
    prog = chk.prog
    chk.rule("C13-D2", "max/min scans: 'new extreme' test uses "
             "GREATER_THAN/LESS_THAN with (running extreme, candidate), "
             "previous matches are discarded before the reset, ties use "
             "EQUALS and append, all other candidates are discarded, "
             "inversion selects the discard list", floor=8)
    summaries: Dict[str, List[Dict[str, Any]]] = {}
    for name, op in (("max", "GREATER_THAN"), ("min", "LESS_THAN")):
        fi = prog.func("KeywordSearches." + name)
        chk.analysed(fi)
        loops = _scan_loops(fi)
        if len(loops) != 3:
            chk.fail("C13-D2", fi, fi.node, name + " scan loops",
                     "expected 3 container branches (Array-of-Hashes, Hash "
                     "of Hashes, Array), found {}".format(len(loops)))
            continue
        summaries[name] = []
        for loop in loops:
            s = summarise_scan(fi, loop)
            summaries[name].append(s)
            text = "{} scan `for {} in {}`".format(
                name, src(loop.target), src(loop.iter))
            probs = list(s["problems"])
            if not probs and s.get("op") != op:
                probs.append("the 'new extreme' test uses {} but {}() is "
                             "defined by {}".format(s.get("op"), name, op))
            if not probs and sorted(set(s["ops"])) != sorted({op, "EQUALS"}):
                probs.append("unexpected comparison operators {}".format(
                    s["ops"]))
            if probs:
                chk.fail("C13-D2", fi, loop, text, "; ".join(probs))
            else:
                chk.ok("C13-D2", fi, loop, text,
                       "{}({}, {}) then EQUALS tie; discard-before-reset; "
                       "rest discarded".format(op, s["extreme"],
                                               s["candidate"]))
        roles = _list_roles(fi)
        if roles:
            chk.ok("C13-D2", fi, fi.node, name + " inversion",
                   "`{} = {} if <invert> else {}`".format(
                       roles["result"], roles["discard"], roles["match"]))
            # the final loop yields everything of the selected list
            last = fi.node.body[-1]
            if not (isinstance(last, ast.For) and
                    src(last.iter) == roles["result"] and
                    len(last.body) == 1):
                chk.fail("C13-D2", fi, last, name + " result relay",
                         "not every selected node is yielded")
        else:
            chk.fail("C13-D2", fi, fi.node, name + " inversion",
                     "inversion does not select the discard list")
    if len(summaries) == 2:
        a = [(s.get("extreme"), s.get("candidate"), len(s["ops"]))
             for s in summaries["max"]]
        b = [(s.get("extreme"), s.get("candidate"), len(s["ops"]))
             for s in summaries["min"]]
        fi = prog.func("KeywordSearches.min")
        if a == b:
            chk.ok("C13-D2", fi, fi.node, "max/min siblings",
                   "scan summaries agree up to the operator")
        else:
            chk.fail("C13-D2", fi, fi.node, "max/min siblings",
                     "max and min differ beyond the operator: {} vs {}"
                     .format(a, b))


def d3_groups(chk: Check) -> None:
    prog = chk.prog
    chk.rule("C13-D3", "unique keeps groups of size exactly 1 (inverted: "
             "size > 1); distinct yields the first member of every group; "
             "groups are keyed by the scanned value and hold the wrapped "
             "member", floor=10)
    pe = PEval()
    un = prog.func("KeywordSearches.unique")
    chk.analysed(un)
    inv_atoms = inversion.inversion_atoms(un)
    comps = [n for n in walk_local(un.node) if isinstance(n, ast.ListComp)
             and n.generators and n.generators[0].ifs
             and ".values()" in src(n.generators[0].iter)]
    if len(comps) != 2:
        chk.fail("C13-D3", un, un.node, "size filters",
                 "expected the two group-size filters, found {}".format(
                     len(comps)))
    for c in comps:
        var = src(c.generators[0].target)
        cond = c.generators[0].ifs[0]
        inverted = any(f.kind == "cond" and f.pol and src(f.expr) in
                       inv_atoms for f in facts_at(c))
        table = []
        for n in range(0, 5):
            t = pe.truth(cond, {"len({})".format(var): Const(n)})
            table.append(t)
        want = [n > 1 for n in range(5)] if inverted else \
            [n == 1 for n in range(5)]
        text = "{}: keep groups with `{}`".format(
            "inverted" if inverted else "plain", src(cond))
        if table == want:
            chk.ok("C13-D3", un, c, text,
                   "truth over sizes 0..4 = {}".format(table))
        else:
            chk.fail("C13-D3", un, c, text,
                     "the size predicate evaluates to {} for group sizes "
                     "0..4; the definition requires {}".format(table, want))
    # both branches are selected by the inversion flag and everything kept
    # is yielded
    last = un.node.body[-1]
    if isinstance(last, ast.For) and isinstance(last.iter, ast.ListComp) \
            and len(last.body) == 1:
        chk.ok("C13-D3", un, last, "unique relay",
               "every member of every kept group is yielded")
    else:
        chk.fail("C13-D3", un, last, "unique relay",
                 "kept groups are not yielded completely")
    di = prog.func("KeywordSearches.distinct")
    chk.analysed(di)
    last = di.node.body[-1]
    ok = isinstance(last, ast.For) and ".values()" in src(last.iter) and \
        len(last.body) == 1 and isinstance(last.body[0], ast.Expr) and \
        isinstance(last.body[0].value, ast.Yield) and \
        src(last.body[0].value.value) == src(last.target) + "[0]"
    if ok:
        chk.ok("C13-D3", di, last, "distinct relay",
               "yields element 0 of every group")
    else:
        chk.fail("C13-D3", di, last, "distinct relay",
                 "distinct does not yield the first member of each group")
    # keying
    for fi in (un, di):
        groups = None
        for n in walk_local(fi.node):
            if isinstance(n, ast.AnnAssign) and isinstance(n.value, ast.Dict) \
                    and "Dict" in src(n.annotation):
                groups = src(n.target)
        if groups is None:
            raise AnalysisError("group map not found in " + fi.short)
        stores = [n for n in walk_local(fi.node) if isinstance(n, ast.Assign)
                  and isinstance(n.targets[0], ast.Subscript) and
                  src(n.targets[0].value) == groups]
        for st in stores:
            key = st.targets[0].slice  # type: ignore[attr-defined]
            val = st.value
            text = src(st)[:70]
            good = isinstance(val, ast.List) and len(val.elts) == 1
            # sibling append under `key in groups`
            blk_if = parent(st)
            app_ok = False
            if isinstance(blk_if, ast.If) and st in blk_if.orelse and \
                    src(blk_if.test) == "{} in {}".format(src(key), groups):
                app_ok = any(
                    src(s) == "{}[{}].append({})".format(
                        groups, src(key), src(val.elts[0]) if good else "?")
                    for s in blk_if.body)
            scalar_branch = not isinstance(blk_if, ast.If) or \
                st not in blk_if.orelse or \
                " in {}".format(groups) not in src(blk_if.test)
            if good and (app_ok or scalar_branch) and \
                    _is_scanned_value(fi, key, val.elts[0], st):
                chk.ok("C13-D3", fi, st, text,
                       "group keyed by the scanned value; first member "
                       "stored, later ones appended")
            else:
                chk.fail("C13-D3", fi, st, text,
                         "groups are not keyed by the scanned value of the "
                         "member they hold (or members are not collected)")


def _is_scanned_value(fi: FuncInfo, key: ast.AST, member: ast.AST,
                      at: ast.AST) -> bool:
    """key derives from the element the member wraps."""
    from sa.coords import reaching_def, resolve, variants
    k = resolve(key, at)
    base = k.value if isinstance(k, ast.Subscript) else k
    # strict: the text of a value is a different grouping key (7 vs "7")
    kv = variants(base, at, 0, True)
    m = member
    if isinstance(m, ast.Name):
        d = reaching_def(m.id, at)
        if d is not None:
            m = d
    elems: Set[str] = set()
    alts = [m.body, m.orelse] if isinstance(m, ast.IfExp) else [m]
    for a in alts:
        if isinstance(a, ast.Call) and src(a.func) == "NodeCoords" and a.args:
            elems |= variants(a.args[0], at)
        elif isinstance(a, ast.Name):
            elems |= variants(a, at)
    return bool(kv & elems)


def d4_misc(chk: Check) -> None:
    prog = chk.prog
    chk.rule("C13-D4a", "has_child: presence test of the named child with "
             "XOR inversion at every match site", floor=5)
    chk.rule("C13-D4b", "parent(n): refuses to climb above the root before "
             "climbing, climbs exactly n levels; name() yields the "
             "parentref", floor=3)
    n_sites = 0
    for name in ("KeywordSearches._has_concrete_child",
                 "KeywordSearches._has_anchored_child"):
        fi = prog.func(name)
        chk.analysed(fi)
        for node, test, m, i in inversion.match_sites(fi):
            n_sites += 1
            ok = inversion.check_xor(test, m, i)
            if ok:
                chk.ok("C13-D4a", fi, node, "if " + src(test),
                       "XOR over ({}, {})".format(m, i))
            else:
                chk.fail("C13-D4a", fi, node, "if " + src(test),
                         "has_child's match test is not (present XOR "
                         "inverted)")
    cc = prog.func("KeywordSearches._has_concrete_child")
    pres = [n for n in walk_local(cc.node) if isinstance(n, ast.Assign)
            and isinstance(n.value, (ast.BoolOp, ast.Compare))
            and " in " in src(n.value)]
    for n in pres:
        t = src(n.value)
        key = None
        for x in walk_local(cc.node):
            if isinstance(x, ast.Assign) and src(x.value).endswith("[0]") \
                    and cc.params()[2] in src(x.value):
                key = src(x.targets[0])
        if key and "{} in {}".format(key, cc.params()[0]) in t and \
                " not in " not in t:
            chk.ok("C13-D4a", cc, n, src(n)[:60],
                   "child present <=> the parameter is a key/member")
        else:
            chk.fail("C13-D4a", cc, n, src(n)[:60],
                     "presence is not `<parameter> in data`")
    # parent()
    pa = prog.func("KeywordSearches.parent")
    chk.analysed(pa)
    loops = [n for n in walk_local(pa.node) if isinstance(n, ast.For)
             and src(n.iter).startswith("range(")]
    guard = None
    if len(loops) == 1 and len(loops[0].iter.args) == 1:  # type: ignore
        levels = src(loops[0].iter.args[0])  # type: ignore
        for f in facts_at(loops[0]):
            e = f.expr
            if f.kind == "cond" and not f.pol and \
                    isinstance(e, ast.Compare) and \
                    isinstance(e.ops[0], ast.Gt) and src(e.left) == levels:
                guard = f
        if guard is not None:
            chk.ok("C13-D4b", pa, loops[0], "for _ in range({})".format(
                levels), "climbs {} levels; `{}` excludes climbing above "
                "the root".format(levels, guard))
        else:
            chk.fail("C13-D4b", pa, loops[0], "climb loop",
                     "the 'above the root' refusal does not dominate the "
                     "climb loop")
        # levels comes from int(parameters[0]) with default 1
        defs = [n for n in walk_local(pa.node)
                if isinstance(n, (ast.Assign, ast.AnnAssign)) and
                src(n.targets[0] if isinstance(n, ast.Assign) else n.target)
                == levels]
        vals = sorted(src(d.value) for d in defs if d.value is not None)
        if vals == ["1", "int({}[0])".format(pa.params()[2])]:
            chk.ok("C13-D4b", pa, defs[0], "levels", "default 1, else "
                   "int(parameter)")
        else:
            chk.fail("C13-D4b", pa, pa.node, "levels",
                     "requested level is not `1` / int(parameter): {}"
                     .format(vals))
    else:
        chk.fail("C13-D4b", pa, pa.node, "climb loop",
                 "parent() no longer climbs with one range(levels) loop")
    na = prog.func("KeywordSearches.name")
    chk.analysed(na)
    ys = [y for y in walk_local(na.node) if isinstance(y, ast.Yield)]
    ok = len(ys) == 1 and isinstance(ys[0].value, ast.Call) and \
        len(ys[0].value.args) >= 3 and \
        src(ys[0].value.args[0]) == src(ys[0].value.args[2])
    if ok:
        chk.ok("C13-D4b", na, ys[0], src(ys[0].value)[:50],
               "the node yielded is the parentref")
    else:
        chk.fail("C13-D4b", na, na.node, "name()",
                 "name() does not yield the key/index of the current node")


def d5_params(chk: Check) -> None:
    prog = chk.prog
    chk.rule("C13-D5", "each keyword routine refuses a wrong parameter "
             "count with a YAMLPathException before using parameters",
             floor=7)
    limits = {"has_child": ("!=", 1), "name": (">", 1), "max": (">", 1),
              "min": (">", 1), "parent": (">", 1), "distinct": (">", 1),
              "unique": (">", 1)}
    for name, (op, bound) in limits.items():
        fi = prog.func("KeywordSearches." + name)
        pname = [p for p in fi.params() if p == "parameters"]
        found = None
        for n in fi.node.body:
            if isinstance(n, ast.If) and any(isinstance(s, ast.Raise)
                                             for s in n.body):
                t = n.test
                if isinstance(t, ast.Compare) and len(t.ops) == 1:
                    from sa.interproc import aliases, subst
                    tt = subst(t, aliases(fi))
                    left, right = src(tt.left), src(tt.comparators[0])
                    from sa.peval import PEval
                    if "len(parameters)" in (left, right):
                        found = (n, tt)
                        break
        if found is None:
            chk.fail("C13-D5", fi, fi.node, name + " count test",
                     "no parameter-count refusal found")
            continue
        n, tt = found
        pe = PEval()
        table = [pe.truth(tt, {"len(parameters)": Const(k), "max_params":
                               Const(1)}) for k in range(0, 4)]
        want = [(k != bound) if op == "!=" else (k > bound)
                for k in range(0, 4)]
        if table == want:
            chk.ok("C13-D5", fi, n, "{}: if {}".format(name, src(n.test)),
                   "refuses counts {}".format(
                       [k for k in range(4) if want[k]]))
        else:
            chk.fail("C13-D5", fi, n, "{}: if {}".format(name, src(n.test)),
                     "refusal truth table over counts 0..3 is {}; "
                     "definition: {}".format(table, want))


def d6_partition(chk: Check) -> None:
    """min()/max(): every member of the collection is filed under the
    matches or under the others on every path through its iteration, so
    that the inverted keyword selects exactly the complement."""
    prog = chk.prog
    chk.rule("C13-D6", "min/max file every member under matches or others "
             "on every path through its iteration", floor=6)
    for q in ("KeywordSearches.min", "KeywordSearches.max"):
        fi = prog.func(q)
        data = fi.params()[0]
        for loop, child, ok in inversion.unjudged_loops(fi, data):
            text = "{}: for {} in {}".format(fi.node.name, src(loop.target),
                                             src(loop.iter))
            if ok:
                chk.ok("C13-D6", fi, loop, text,
                       "a record of `{}` is stored on every path".format(
                           child))
            else:
                chk.fail("C13-D6", fi, loop, text,
                         "some path through the iteration files `{}` "
                         "nowhere: it is missing from {}() and from !{}()"
                         .format(child, fi.node.name, fi.node.name))


def d7_branches_exclusive(chk: Check) -> None:
    """has_child(): once the elements of an Array-of-Hashes have been
    judged one by one (delegation to the same helper per element), the list
    itself is not judged again by the plain-list test on the same path."""
    from sa.flow import Flow
    prog = chk.prog
    chk.rule("C13-D7", "has_child: after delegating to its elements an "
             "Array-of-Hashes is not judged a second time as a plain list",
             floor=2)
    for q in ("KeywordSearches._has_concrete_child",
              "KeywordSearches._has_anchored_child"):
        fi = prog.func(q)
        me = "KeywordSearches." + fi.node.name
        sites = {id(s[0]) for s in inversion.match_sites(fi)
                 if inversion.check_xor(s[1], s[2], s[3])}
        if not sites:
            raise AnalysisError("no inversion test in " + q)
        hits: List[ast.AST] = []

        def delegates(stmt: ast.AST) -> bool:
            return any(isinstance(c, ast.Call) and src(c.func) == me
                       for c in ast.walk(stmt))

        def transfer(stmt: ast.stmt, st, flow):
            if delegates(stmt):
                return [True]
            return [st]

        def bind(target, it_expr, st, flow):
            if delegates(it_expr):
                return [True]
            return [st]

        def branch(test: ast.AST, st, flow):
            from sa.model import parent as _parent
            p = _parent(test)
            if st and p is not None and id(p) in sites:
                hits.append(p)
            return [st], [st]
        Flow(transfer, branch, bind=bind).run(fi.node.body, [False])
        text = fi.node.name
        if hits:
            chk.fail("C13-D7", fi, hits[0], text,
                     "after the per-element delegation control reaches the "
                     "test `if {}` for the list as a whole: the inverted "
                     "keyword yields the list itself as an extra match"
                     .format(src(hits[0].test)[:60]))
        else:
            chk.ok("C13-D7", fi, fi.node, text,
                   "no inversion test is reachable after the delegation "
                   "loop ({} tests)".format(len(sites)))


def d8_refusal_only_for_scalars(chk: Check) -> None:
    """In the hash-of-hashes branch of min / max / unique / distinct a
    member that is itself a hash but lacks the scanned attribute is simply
    left out of the comparison.  The "did you mean to evaluate the parent"
    refusal is for a member that is *not* a hash while the collection has
    the attribute as a key.  Merging the two tests (`isinstance(val, dict)
    and NAME in val` ... `elif NAME in data: raise`) refuses a legitimate
    query as soon as one record lacks the attribute."""
    prog = chk.prog
    chk.rule("C13-D8", "in the hash branch of min/max/unique/distinct the "
             "refusal is reached only for a member that is no hash "
             "(negated pure `isinstance(member, dict)` on the path)",
             floor=4)
    for q in ("KeywordSearches.min", "KeywordSearches.max",
              "KeywordSearches.unique", "KeywordSearches.distinct"):
        fi = prog.func(q)
        found = 0
        for loop in walk_local(fi.node):
            if not (isinstance(loop, ast.For) and
                    isinstance(loop.iter, ast.Call) and
                    isinstance(loop.iter.func, ast.Attribute) and
                    loop.iter.func.attr == "items" and
                    isinstance(loop.target, ast.Tuple)):
                continue
            member = src(loop.target.elts[1])
            for r in walk_local(loop):
                if not isinstance(r, ast.Raise):
                    continue
                found += 1
                pure = False
                for f in facts_at(r):
                    e = f.expr
                    if f.kind == "cond" and not f.pol and \
                            isinstance(e, ast.Call) and \
                            src(e.func) == "isinstance" and \
                            len(e.args) == 2 and src(e.args[0]) == member \
                            and ("dict" in src(e.args[1]).lower() or
                                 "map" in src(e.args[1]).lower()):
                        pure = True
                text = "{}: refusal inside the member loop".format(fi.short)
                if pure:
                    chk.ok("C13-D8", fi, r, text,
                           "only when `{}` is no hash".format(member))
                else:
                    chk.fail("C13-D8", fi, r, text,
                             "the refusal can be reached for a member that "
                             "is a hash (it merely lacks the scanned "
                             "attribute): the query is refused instead of "
                             "leaving that member out")
        if found != 1:
            raise AnalysisError("{}: {} refusals inside the member loop"
                                .format(fi.short, found))


def d9_sentinel_is_not_a_value(chk: Check) -> None:
    """min / max keep the best value met so far in a variable whose `None`
    means "no candidate yet" (`if best is None or ...`).  A null that the
    document holds under the scanned attribute must therefore never be
    stored there: it would read as "no candidate", the next member wins
    unconditionally and the real extremes met before are discarded.  Every
    `best = X` inside the scans is dominated by `X is not None` (for the
    expression X is defined as)."""
    from sa.coords import reaching_def
    prog = chk.prog
    chk.rule("C13-D9", "every value stored as the running extreme of "
             "min / max is known not to be null (null is the scans' "
             "\"no candidate yet\" marker)", floor=6)
    for q in ("KeywordSearches.min", "KeywordSearches.max"):
        fi = prog.func(q)
        sentinels = set()
        for t in walk_local(fi.node):
            if isinstance(t, ast.Compare) and len(t.ops) == 1 and \
                    isinstance(t.ops[0], ast.Is) and \
                    src(t.comparators[0]) == "None" and \
                    isinstance(t.left, ast.Name):
                p_ = parent(t)
                if isinstance(p_, ast.BoolOp) and isinstance(p_.op, ast.Or):
                    sentinels.add(t.left.id)
        if len(sentinels) != 1:
            raise AnalysisError("{}: running-extreme variable not found: {}"
                                .format(fi.short, sorted(sentinels)))
        best = sentinels.pop()
        for a in walk_local(fi.node):
            if not (isinstance(a, ast.Assign) and
                    src(a.targets[0]) == best and
                    any(isinstance(x, (ast.For, ast.While))
                        for x in ancestors(a))):
                continue
            v = a.value
            names = {src(v)}
            if isinstance(v, ast.Name):
                d = reaching_def(v.id, a)
                if d is not None:
                    names.add(src(d))
            nonnull = any(
                f.kind == "cond" and isinstance(f.expr, ast.Compare) and
                len(f.expr.ops) == 1 and
                src(f.expr.comparators[0]) == "None" and
                src(f.expr.left) in names and
                ((isinstance(f.expr.ops[0], ast.IsNot) and f.pol) or
                 (isinstance(f.expr.ops[0], ast.Is) and not f.pol))
                for f in facts_at(a))
            text = "{}: {} = {}".format(fi.short, best, src(v))
            if nonnull:
                chk.ok("C13-D9", fi, a, text, "known not to be null")
            else:
                chk.fail("C13-D9", fi, a, text,
                         "`{}` may be a null held by the document: stored "
                         "as the running extreme it reads as \"no "
                         "candidate yet\", so the next member wins "
                         "unconditionally and earlier extremes are "
                         "discarded".format(src(v)))


def d10_characters_by_literal(chk: Check) -> None:
    """The character loops of the path parsers decide what a character
    means by comparing it with *literal* characters (or with the open
    demarcation mark).  A character-class predicate (`isspace()`,
    `isalnum()`...) widens an arm to characters the arm was never meant
    for -- and which the path writer does not escape: with `isspace()` in
    the arm that drops unquoted blanks, a TAB or a line break inside a
    keyword parameter (a key name) silently disappears, and
    `[has_child(a<TAB>b)]` looks for the key `ab`."""
    prog = chk.prog
    chk.rule("C13-D10", "the character loops of the path parsers classify "
             "the current character only by comparison with literal "
             "characters, never by a str predicate method", floor=8)
    n = 0
    for q in ("SearchKeywordTerms.parameters", "YAMLPath._parse_path"):
        fi = prog.func(q)
        loops = [l for l in walk_local(fi.node) if isinstance(l, ast.For)
                 and isinstance(l.target, (ast.Name, ast.Tuple))]
        for loop in loops:
            tgt = loop.target
            char = src(tgt.elts[-1]) if isinstance(tgt, ast.Tuple) \
                else src(tgt)
            for t in walk_local(loop):
                if isinstance(t, ast.Compare) and src(t.left) == char and \
                        len(t.ops) == 1 and \
                        isinstance(t.ops[0], (ast.Eq, ast.NotEq, ast.In,
                                              ast.NotIn)):
                    n += 1
                    chk.ok("C13-D10", fi, t, "{}: `{}`".format(
                        fi.short, src(t)[:40]), "literal comparison", False)
                elif isinstance(t, ast.Call) and \
                        isinstance(t.func, ast.Attribute) and \
                        src(t.func.value) == char and \
                        t.func.attr.startswith("is"):
                    n += 1
                    chk.fail("C13-D10", fi, t, "{}: `{}`".format(
                        fi.short, src(t)),
                        "`{}` is true for more than the one character the "
                        "arm is about (TAB, line breaks, NO-BREAK SPACE for "
                        "isspace): those characters of a key or parameter "
                        "are handled like the blank -- dropped -- although "
                        "nothing escapes them when a path is written"
                        .format(src(t)))
    if n < 8:
        raise AnalysisError("character tests in the parsers: {}".format(n))


def d11_aoh_is_a_universal_test(chk: Check) -> None:
    """"Array-of-Hashes" means *every* element is a Hash (or null, where
    nulls are accepted) -- a universal statement, true of the empty list.
    The keyword searches rely on that: they try the Array-of-Hashes arm
    first and the plain-list arm, which refuses a key-name parameter,
    second.  If the test demands at least one Hash, `[max(price)]` over an
    empty (or all-null) `items` list raises "cannot utilize a key name"
    instead of selecting nothing, and a sweep over many such lists aborts
    at the first empty one."""
    prog = chk.prog
    chk.rule("C13-D11", "Nodes.node_is_aoh answers True when no element "
             "fails the test (the return after the element loop is the "
             "constant True, or an all() over the elements)", floor=1)
    fi = prog.func("Nodes.node_is_aoh")
    loops = [l for l in fi.node.body if isinstance(l, ast.For)]
    after = []
    if loops:
        idx = fi.node.body.index(loops[-1])
        after = [r for st in fi.node.body[idx + 1:] for r in ast.walk(st)
                 if isinstance(r, ast.Return)]
    else:
        after = [r for r in fi.node.body if isinstance(r, ast.Return) and
                 isinstance(r.value, ast.Call) and
                 src(r.value.func) == "all"]
    if not after:
        raise AnalysisError("final verdict of node_is_aoh not found")
    for r in after:
        text = "node_is_aoh: `{}`".format(src(r))
        v = r.value
        if (isinstance(v, ast.Constant) and v.value is True) or (
                isinstance(v, ast.Call) and src(v.func) == "all"):
            chk.ok("C13-D11", fi, r, text, "true of the empty list")
        else:
            chk.fail("C13-D11", fi, r, text,
                     "the verdict after the element loop is not "
                     "unconditionally True: a list without any Hash (empty, "
                     "or nulls only) stops being an Array-of-Hashes, and "
                     "max/min/unique/distinct with a key name refuse it "
                     "instead of selecting nothing")


def run(chk: Check) -> None:
    d1_routing(chk)
    d2_extremes(chk)
    d3_groups(chk)
    d4_misc(chk)
    d5_params(chk)
    d6_partition(chk)
    d7_branches_exclusive(chk)
    d8_refusal_only_for_scalars(chk)
    d9_sentinel_is_not_a_value(chk)
    d10_characters_by_literal(chk)
    d11_aoh_is_a_universal_test(chk)
