"""C12 -- search operators compare by the documented typed rules.

Decided clauses (DESIGN.md section 4, C12 and appendix A.1):
  D1  complete decision table of Searches.search_matches extracted by
      partial evaluation over method x haystack kind x needle kind and
      compared with the oracle table;
  D3  string-to-native conversion (boolean spellings, caught failures);
  D4  the comparison never raises for a well-formed term;
  D5  inversion is complement at every match site.
"""
from __future__ import annotations

import ast
from typing import Any, Dict, List, Optional, Tuple

from rules import inversion
from sa import partial
from sa.escape import Escape, enum_chain_exhaustive
from sa.interproc import clone
from sa.model import (AnalysisError, FuncInfo, Program, ancestors, closure,
                      src,
                      walk_local)
from sa.peval import Const, Enum, Kind, PEval, show
from sa.report import Check

META = {
    "explanation": (
        "Searches.search_matches is specialised (partial evaluation of its "
        "AST) for each of the 9 operators x 10 haystack kinds x 5 needle "
        "kinds; each of the 450 cells reduces to one normal-form result "
        "expression over the roles typed-haystack / typed-needle / raw "
        "needle, which is compared with an oracle table written from the "
        "property statement (typed equality for same-kind numbers and "
        "booleans, text otherwise; ordering numeric with the member's own "
        "operator, False against a non-numeric term, lexicographic for "
        "text; prefix/suffix/substring on the value's text; regex search "
        "not match).  Nodes.typed_value's boolean spellings and caught "
        "conversion failures, exception escape, and the XOR truth table of "
        "every inversion predicate are decided from the AST.  Nothing is "
        "executed."),
    "declined": [
        "Python's own operator semantics and ast.literal_eval's "
        "classification of a text as bool/int/float/other (trusted base)",
    ],
    "assumptions": ["bool is a subtype of int for isinstance"],
    "trusted_base": ["Python comparison operators", "ast.literal_eval",
                     "re.compile/.search"],
}

# literal evaluation of a scalar's text can also produce a container
# ('[1, 2]', '(1, 2)', '{1}', '{"a": 1}'): those are compared as text, like
# every other non-numeric value
H_KINDS = ["none", "bool", "int", "float", "str", "other",
           "list", "tuple", "set", "dict"]
N_KINDS = ["bool", "int", "float", "str", "other"]
ISA = {"none": set(), "bool": {"bool", "int"}, "int": {"int"},
       "float": {"float"}, "str": {"str"}, "other": set(),
       "list": {"list"}, "tuple": {"tuple"}, "set": {"set"},
       "dict": {"dict"}}
NUM = {"bool", "int", "float"}
ORDER = {"GREATER_THAN": ">", "LESS_THAN": "<",
         "GREATER_THAN_OR_EQUAL": ">=", "LESS_THAN_OR_EQUAL": "<="}


def oracle(method: str, h: str, n: str) -> str:
    """Normal-form result expected for a cell (appendix A.1)."""
    if method == "EQUALS":
        if h == "bool" and n == "bool":
            return "TH == TN"
        if h in ("bool", "int") and n == "int":
            return "TH == TN"
        if h == "float" and n == "float":
            return "TH == TN"
        return "str(TH) == str(N)"
    if method == "STARTS_WITH":
        return "str(TH).startswith(N)"
    if method == "ENDS_WITH":
        return "str(TH).endswith(N)"
    if method == "CONTAINS":
        return "N in str(TH)"
    if method in ORDER:
        op = ORDER[method]
        if h in NUM:
            if n in NUM:
                return "TH {} TN".format(op)
            return "False"
        return "str(TH) {} str(N)".format(op)
    if method == "REGEX":
        return "re.compile(N).search(str(TH)) is not None"
    raise AnalysisError("no oracle for " + method)


FLIP = {ast.Lt: ast.Gt, ast.Gt: ast.Lt, ast.LtE: ast.GtE, ast.GtE: ast.LtE}


class _Rename(ast.NodeTransformer):
    def __init__(self, m: Dict[str, str]) -> None:
        self.m = m

    def visit_Name(self, node: ast.Name) -> ast.AST:
        return ast.Name(id=self.m.get(node.id, node.id), ctx=ast.Load())


def normal_form(expr: ast.AST, roles: Dict[str, str],
                locals_: Dict[str, ast.AST]) -> str:
    e = clone(expr)
    # inline single-definition helper locals (matcher = re.compile(needle))
    for _ in range(3):
        class Inl(ast.NodeTransformer):
            def visit_Name(self, node: ast.Name) -> ast.AST:
                if node.id in locals_ and node.id not in roles:
                    return clone(locals_[node.id])
                return node
        e = Inl().visit(e)
    e = _Rename(roles).visit(e)
    if isinstance(e, ast.Compare) and len(e.ops) == 1:
        l, r, op = e.left, e.comparators[0], e.ops[0]
        if isinstance(op, ast.Eq):
            a, b = sorted([src(l), src(r)], key=lambda s: ("TH" not in s, s))
            return "{} == {}".format(a, b)
        if type(op) in FLIP and "TH" not in src(l) and "TH" in src(r):
            e = ast.Compare(left=r, ops=[FLIP[type(op)]()], comparators=[l])
    return src(e)


def d1_table(chk: Check) -> None:
    prog = chk.prog
    chk.rule("C12-D1", "each (operator, haystack kind, needle kind) cell of "
             "Searches.search_matches reduces to the documented comparison",
             floor=450)
    fi = prog.func("Searches.search_matches")
    chk.analysed(fi)
    params = fi.params()
    if len(params) < 3:
        raise AnalysisError("search_matches signature changed")
    p_method, p_needle, p_hay = params[0], params[1], params[2]
    # role discovery
    roles = {p_needle: "N", p_hay: "H"}
    th = tn = ntype = None
    for n in fi.node.body:
        if isinstance(n, (ast.Assign, ast.AnnAssign)):
            tgt = n.targets[0] if isinstance(n, ast.Assign) else n.target
            v = n.value
            if isinstance(tgt, ast.Name) and isinstance(v, ast.Call):
                f = src(v.func)
                if f.endswith("typed_value") and v.args:
                    if src(v.args[0]) == p_hay:
                        th = tgt.id
                    elif src(v.args[0]) == p_needle:
                        tn = tgt.id
                elif f == "type" and v.args and tn and \
                        src(v.args[0]) == tn:
                    ntype = tgt.id
    if th is None or tn is None:
        raise AnalysisError("typed haystack/needle roles not found")
    roles[th] = "TH"
    roles[tn] = "TN"
    members = prog.enum_members("PathSearchMethods")
    if len(members) != 9:
        raise AnalysisError("PathSearchMethods has {} members".format(
            len(members)))
    pe = PEval(isa=ISA, enum_classes={"PathSearchMethods"})
    body = fi.node.body
    for m in members:
        for h in H_KINDS:
            for n in N_KINDS:
                env: Dict[str, Any] = {
                    p_method: Enum("PathSearchMethods", m),
                    th: Kind(h), tn: Kind(n),
                }
                if ntype:
                    env[ntype] = Enum("type", n)
                for t in ("bool", "int", "float", "str"):
                    env[t] = Enum("type", t)
                res = pe.specialise(body, env, pinned=[x for x in (th, tn, ntype) if x])
                got = _result_of(res, roles)
                want = oracle(m, h, n)
                cell = "{}[H={},N={}]".format(m, h, n)
                if got == want:
                    chk.ok("C12-D1", fi, None, cell,
                           "residual result `{}`".format(got),
                           nontrivial=True)
                else:
                    chk.fail("C12-D1", fi, None, cell,
                             "for operator {} with a {} value and a {} term "
                             "the code computes `{}` but the documented "
                             "rule is `{}`".format(m, h, n, got, want),
                             {"residual": show(res)[:600]})


def _result_of(res: List[ast.stmt], roles: Dict[str, str]) -> str:
    """Normal form of the value the residual returns."""
    locals_: Dict[str, ast.AST] = {}
    ret: Optional[ast.AST] = None
    for s in _flatten(res):
        if isinstance(s, ast.If):
            return "<undecided: if {}>".format(src(s.test))
        if isinstance(s, (ast.Assign, ast.AnnAssign)):
            tgt = s.targets[0] if isinstance(s, ast.Assign) else s.target
            if isinstance(tgt, ast.Name) and s.value is not None and \
                    tgt.id not in roles:
                locals_[tgt.id] = s.value
        elif isinstance(s, ast.Return):
            ret = s.value
            break
        elif isinstance(s, ast.Raise):
            return "<raise {}>".format(src(s.exc)[:40] if s.exc else "")
    if ret is None:
        return "<no return>"
    return normal_form(ret, roles, locals_)


def _flatten(stmts: List[ast.stmt]) -> List[ast.stmt]:
    out: List[ast.stmt] = []
    for s in stmts:
        if isinstance(s, ast.Try):
            out.extend(_flatten(s.body))
        elif isinstance(s, ast.With):
            out.extend(_flatten(s.body))
        else:
            out.append(s)
    return out


def d3_typed_value(chk: Check) -> None:
    prog = chk.prog
    chk.rule("C12-D3", "Nodes.typed_value: boolean spellings are exactly "
             "{true,false} case-insensitively (title-cased for "
             "literal_eval); every conversion failure class is caught and "
             "yields the original value", floor=3)
    fi = prog.func("Nodes.typed_value")
    chk.analysed(fi)
    spell = None
    for n in walk_local(fi.node):
        if isinstance(n, ast.Compare) and len(n.ops) == 1 and \
                isinstance(n.ops[0], ast.In) and \
                isinstance(n.comparators[0], (ast.Tuple, ast.List, ast.Set)):
            vals = [e.value for e in n.comparators[0].elts
                    if isinstance(e, ast.Constant)]
            left = n.left
            spell = (n, sorted(map(str, vals)), src(left))
    if spell is None:
        raise AnalysisError("boolean spelling test not found in typed_value")
    node, vals, left = spell
    lowered = any(isinstance(x, (ast.Assign, ast.AnnAssign)) and
                  src(x.targets[0] if isinstance(x, ast.Assign) else x.target)
                  == left and ".lower()" in src(x.value)
                  for x in walk_local(fi.node))
    if vals == ["false", "true"] and lowered:
        chk.ok("C12-D3", fi, node, "spellings " + str(vals),
               "membership test on the lower-cased text")
    else:
        chk.fail("C12-D3", fi, node, "spellings " + str(vals),
                 "boolean spellings must be exactly true/false compared "
                 "case-insensitively; found {} (lower-cased: {})".format(
                     vals, lowered))
    # title-casing feeds literal_eval
    titled = [x for x in walk_local(node._parent)  # type: ignore
              if isinstance(x, ast.Call) and isinstance(x.func, ast.Attribute)
              and x.func.attr == "title"]
    if titled:
        chk.ok("C12-D3", fi, titled[0], "title()",
               "boolean spellings are title-cased before literal_eval")
    else:
        chk.fail("C12-D3", fi, node, "title()",
                 "boolean spellings are not normalised to True/False before "
                 "literal_eval: 'true' would stay text")
    for site in partial.find_sites(fi):
        if site.kind == "literal_eval":
            why = partial.handled(site.node, site.exc)
            if why:
                # handlers must fall back to the original value
                ok = True
                for h in partial.enclosing_handlers(site.node):
                    if not any(isinstance(s, ast.Assign) and
                               src(s.value) == fi.params()[0]
                               for s in h.body):
                        ok = False
                if ok:
                    chk.ok("C12-D3", fi, site.node, site.text, why)
                else:
                    chk.fail("C12-D3", fi, site.node, site.text,
                             "a conversion-failure handler does not fall "
                             "back to the original value")
            else:
                chk.fail("C12-D3", fi, site.node, site.text,
                         "literal_eval can raise {} but not all are caught"
                         .format("/".join(site.exc)))


def d4_no_raise(chk: Check) -> None:
    prog = chk.prog
    chk.rule("C12-D4", "nothing but a YAMLPathException (malformed term) can "
             "leave Searches.search_matches", floor=2)
    root = prog.func("Searches.search_matches")
    cl = closure(prog, [root])
    esc = Escape(prog)
    esc.compute(cl)
    for fi in cl:
        for cls, node in esc.local_raises(fi):
            short = cls.split(".")[-1]
            key = "{}:{}".format(fi.short, node.lineno)
            if prog.is_subclass(cls, "YAMLPathException"):
                chk.ok("C12-D4", fi, node, "raise " + short,
                       "library exception (malformed term)", False)
            elif (cls, key) not in esc.escaping(root):
                chk.ok("C12-D4", fi, node, "raise " + short, "caught", False)
            elif short == "NotImplementedError" and \
                    enum_chain_exhaustive(prog, node):
                chk.ok("C12-D4", fi, node, "raise " + short,
                       "unreachable: " + enum_chain_exhaustive(prog, node))
            else:
                chk.fail("C12-D4", fi, node, "raise " + short,
                         "{} can leave search_matches".format(short))
        if fi.short.startswith(("Searches.", "Nodes.")):
            for site in partial.find_sites(fi):
                why = partial.discharge(site, prog)
                if why:
                    chk.ok("C12-D4", fi, site.node, site.text, why)
                else:
                    chk.fail("C12-D4", fi, site.node,
                             "{} {}".format(site.kind, site.text),
                             "`{}` may raise {}".format(
                                 site.text, "/".join(site.exc)))


def d5_inversion(chk: Check) -> None:
    prog = chk.prog
    chk.rule("C12-D5", "every search match site tests (matched XOR "
             "inverted): an inverted search yields exactly the complement",
             floor=8)
    for name in ("Processor._get_nodes_by_search", "Searches.search_anchor"):
        fi = prog.func(name)
        chk.analysed(fi)
        for node, test, m, i in inversion.match_sites(fi):
            ok = inversion.check_xor(test, m, i)
            text = "if " + src(test)
            if ok:
                chk.ok("C12-D5", fi, node, text,
                       "truth table over ({}, {}) is XOR".format(m, i))
            else:
                chk.fail("C12-D5", fi, node, text,
                         "the predicate over ({}, {}) is not XOR: an "
                         "inverted search would not be the complement of "
                         "the plain one".format(m, i))
    # a result produced without consulting such a test is not inverted
    fi = prog.func("Processor._get_nodes_by_search")
    sites = inversion.match_sites(fi)
    for y in walk_local(fi.node):
        if isinstance(y, ast.Yield) and isinstance(y.value, ast.Call) and \
                src(y.value.func) == "NodeCoords":
            if any(a is s[0] for a in ancestors(y) for s in sites):
                chk.ok("C12-D5", fi, y, "yield @{}".format(y.lineno),
                       "governed by a match/inversion test", False)
            else:
                chk.fail("C12-D5", fi, y, "yield " + src(y.value)[:50],
                         "a search result is yielded without consulting "
                         "the (matched XOR inverted) test")


def d6_every_candidate_judged(chk: Check) -> None:
    prog = chk.prog
    chk.rule("C12-D6", "every child enumerated by the search handler is "
             "judged by a (matched XOR inverted) test on every path through "
             "its iteration: no candidate is dropped from both the result "
             "and its complement", floor=3)
    fi = prog.func("Processor._get_nodes_by_search")
    data = fi.params()[1]
    for loop, child, ok in inversion.unjudged_loops(fi, data):
        text = "for {} in {}".format(src(loop.target), src(loop.iter))
        if ok:
            chk.ok("C12-D6", fi, loop, text,
                   "`{}` reaches a match/inversion test on every path"
                   .format(child))
        else:
            chk.fail("C12-D6", fi, loop, text,
                     "some path through the iteration leaves without "
                     "judging `{}`: the element is in neither the plain nor "
                     "the inverted result".format(child))


def d7_all_equal_keys(chk: Check) -> None:
    """Equality is typed: several keys / elements can equal one term
    (true, "True", "TRUE"; 80, "80").  The search handler therefore never
    stops at the first hit, and never decides on a raw comparison result
    without the inversion flag."""
    prog = chk.prog
    chk.rule("C12-D7", "the search handler enumerates all children (no "
             "early exit from a child loop) and every test that reads a "
             "comparison result also reads the inversion flag", floor=4)
    fi = prog.func("Processor._get_nodes_by_search")
    data = fi.params()[1]
    for loop, exits in inversion.exhausting_loops(fi, data):
        text = "for {} in {}".format(src(loop.target), src(loop.iter)[:30])
        if exits:
            chk.fail("C12-D7", fi, exits[0], text,
                     "early exit at line {}: later children equal to the "
                     "term under the typed comparison are in neither the "
                     "plain nor (for an inverted search) the complementary "
                     "result".format(exits[0].lineno))
        else:
            chk.ok("C12-D7", fi, loop, text, "runs to exhaustion")
    lone = inversion.lone_match_tests(fi)
    for n in lone:
        chk.fail("C12-D7", fi, n, "if " + src(n.test)[:60],
                 "decides on the comparison result without the inversion "
                 "flag")
    if not lone:
        chk.ok("C12-D7", fi, fi.node, "tests reading a comparison result",
               "all read the inversion flag too")


def d9_anchored_booleans_are_booleans(chk: Check) -> None:
    """ruamel loads `true` as Python's True -- unless the node is anchored:
    `&flag true` becomes a ScalarBoolean, an *int* subclass (not a bool)
    whose text is `1`.  The decision table of search_matches is written
    over bool / int / float / text; typed_value is what maps a haystack
    onto those kinds, so it must turn a ScalarBoolean into a plain bool
    before anything else looks at it.  Otherwise `[.=true]` misses every
    anchored true and `[.!=true]` selects it."""
    prog = chk.prog
    chk.rule("C12-D9", "typed_value returns bool(value) for a ScalarBoolean "
             "before its literal evaluation", floor=1)
    fi = prog.func("Nodes.typed_value")
    val = fi.params()[0]
    evals = [c for c in walk_local(fi.node) if isinstance(c, ast.Call) and
             src(c.func).endswith("literal_eval")]
    if not evals:
        raise AnalysisError("literal evaluation of typed_value not found")
    arm = None
    for st in fi.node.body:
        if isinstance(st, ast.If) and isinstance(st.test, ast.Call) and \
                src(st.test.func) == "isinstance" and \
                src(st.test.args[0]) == val and \
                "ScalarBoolean" in src(st.test.args[1]) and \
                st.lineno < evals[0].lineno:
            rets = [r for r in st.body if isinstance(r, ast.Return)]
            if rets and isinstance(rets[0].value, ast.Call) and \
                    src(rets[0].value.func) == "bool":
                arm = st
    text = "typed_value(<ScalarBoolean>)"
    if arm is not None:
        chk.ok("C12-D9", fi, arm, text, "returns bool(...) first")
    else:
        chk.fail("C12-D9", fi, evals[0], text,
                 "an anchored boolean reaches the comparison as an int "
                 "subclass whose text is `1` / `0`: `[.=true]` does not "
                 "match `&flag true`, and the inverted search selects it")


def d10_subject_judged_after_its_evidence(chk: Check) -> None:
    """Where the search handler decides about the node it was *given* (the
    descendant search `[a.b=x]` on a Hash, the scalar arm) rather than
    about a child, any loop involved only gathers evidence.  The verdict
    -- with the inversion flag -- is taken after that loop, so that a node
    with no evidence at all (the attribute path matches nothing) still
    gets one: it is not selected by `[a.b=x]` and is selected by
    `[a.b!=x]`.  A yield of the node itself from inside the loop never
    runs for such a node, and it is in neither result."""
    prog = chk.prog
    chk.rule("C12-D10", "the search handler yields the node it was given "
             "(not a child) only outside loops", floor=2)
    fi = prog.func("Processor._get_nodes_by_search")
    data = fi.params()[1]
    n = 0
    for y in walk_local(fi.node):
        if not (isinstance(y, ast.Yield) and isinstance(y.value, ast.Call)
                and src(y.value.func) == "NodeCoords" and y.value.args and
                src(y.value.args[0]) == data):
            continue
        n += 1
        loops = [a for a in ancestors(y)
                 if isinstance(a, (ast.For, ast.While))]
        text = "yield NodeCoords({}, ...) at line {}".format(
            data, "(n/a)")
        if loops:
            chk.fail("C12-D10", fi, y, text,
                     "the node itself is yielded from inside `for {} in "
                     "{}`: when that loop has nothing to iterate over the "
                     "node is judged neither for the plain nor for the "
                     "inverted search".format(
                         src(loops[0].target),
                         src(loops[0].iter)[:40]
                         if isinstance(loops[0], ast.For) else "..."))
        else:
            chk.ok("C12-D10", fi, y, text, "after the evidence is in")
    if n < 2:
        raise AnalysisError("yields of the given node: {}".format(n))


def d11_operands_typed_once(chk: Check) -> None:
    """`typed_value` literal-evaluates text, and it is not idempotent: the
    text `'1.0'` (quote marks included) evaluates to the text `1.0`, which
    evaluates to the float 1.0.  Each operand of search_matches is
    therefore typed exactly once, from the parameter itself.  Routing the
    haystack through another conversion first (`tagless_value` already
    calls typed_value) types it twice and moves quoted look-alike text from
    the textual rungs of the table to the numeric / boolean ones."""
    prog = chk.prog
    chk.rule("C12-D11", "each typed_value() call of search_matches is "
             "applied to a parameter that has not been re-bound", floor=2)
    fi = prog.func("Searches.search_matches")
    params = fi.params()
    calls = [c for c in walk_local(fi.node) if isinstance(c, ast.Call) and
             src(c.func).endswith("typed_value")]
    if len(calls) < 2:
        raise AnalysisError("typed_value calls of search_matches: {}".format(
            len(calls)))
    for c in calls:
        arg = c.args[0] if c.args else None
        text = "search_matches: {}".format(src(c))
        rebound = isinstance(arg, ast.Name) and any(
            isinstance(x, ast.Name) and x.id == arg.id and
            isinstance(x.ctx, ast.Store) for x in walk_local(fi.node))
        if isinstance(arg, ast.Name) and arg.id in params and not rebound:
            chk.ok("C12-D11", fi, c, text, "the parameter as passed in")
        else:
            chk.fail("C12-D11", fi, c, text,
                     "the operand has been converted before it is typed: a "
                     "second literal evaluation turns quoted look-alike "
                     "text ('1.0', 'true') into numbers and booleans, so "
                     "`[version=1.00]` matches the text \"'1.0'\"")


def _kind_test(t: ast.AST) -> bool:
    """A test made of `is None` / isinstance() atoms only."""
    if isinstance(t, ast.BoolOp):
        return all(_kind_test(v) for v in t.values)
    if isinstance(t, ast.UnaryOp) and isinstance(t.op, ast.Not):
        return _kind_test(t.operand)
    if isinstance(t, ast.Compare) and len(t.ops) == 1 and \
            isinstance(t.ops[0], (ast.Is, ast.IsNot)) and \
            isinstance(t.comparators[0], ast.Constant) and \
            t.comparators[0].value is None:
        return True
    return isinstance(t, ast.Call) and src(t.func) == "isinstance"


def d12_typing_not_skipped_by_text_properties(chk: Check) -> None:
    """typed_value decides what a term or a node value *is*; the operators
    compare numerically exactly when both sides came out as numbers.  YAML
    and Python integers have no size limit and a float may be written with
    any number of digits, so a shortcut that hands text back unconverted
    because of a property of the text itself (its length, its first
    character, ...) makes `5 < 1000...0` a comparison with a non-number:
    False, and the inverted search True.  Only the kind of the value (None,
    a wrapper, an anchored boolean) may bypass the literal evaluation."""
    from sa.model import ancestors
    prog = chk.prog
    chk.rule("C12-D12", "every early return of Nodes.typed_value stands "
             "under tests of the value's kind (is None / isinstance) only",
             floor=2)
    fi = prog.func("Nodes.typed_value")
    chk.analysed(fi)
    body = fi.node.body
    for r in walk_local(fi.node):
        if not isinstance(r, ast.Return) or r is body[-1]:
            continue
        tests = [a.test for a in ancestors(r)
                 if isinstance(a, (ast.If, ast.While))]
        in_handler = any(isinstance(a, ast.ExceptHandler)
                         for a in ancestors(r))
        text = "typed_value: `{}` under {}".format(
            src(r)[:40], [src(t)[:40] for t in tests])
        if in_handler or (tests and all(_kind_test(t) for t in tests)):
            chk.ok("C12-D12", fi, r, text, "a test of the value's kind")
        else:
            chk.fail("C12-D12", fi, r, text,
                     "the literal evaluation is bypassed because of a "
                     "property of the text (not of the value's kind): a "
                     "number written with that property stays text, the "
                     "ordering operators answer 'not a number' and the "
                     "inverted search matches everything")


def run(chk: Check) -> None:
    d1_table(chk)
    d3_typed_value(chk)
    d4_no_raise(chk)
    d5_inversion(chk)
    d6_every_candidate_judged(chk)
    d7_all_equal_keys(chk)
    # the verdict judged for an element is the one computed for it
    from rules.c01 import d4c_verdict_per_element
    d4c_verdict_per_element(chk, "C12-D8")
    d9_anchored_booleans_are_booleans(chk)
    d10_subject_judged_after_its_evidence(chk)
    d11_operands_typed_once(chk)
    d12_typing_not_skipped_by_text_properties(chk)

