"""C17 -- a failing or interrupted tool run never loses the user's file.

Decided clauses (DESIGN.md section 4, C17):
  D1  yaml-set: no error exit after the first file write of main();
  D2  in every writer the backup copy precedes the truncating open on every
      path on which the backup flag may hold, and nothing removes the
      backup afterwards (outside the restore path);
  D3  yaml-merge: the write is reached only with a zero exit state; an
      existing --output is refused during argument validation, before any
      I/O;
  D4  yaml-set restore path: pre-image saved before the truncating open;
      the handler rewrites the target before removing the backup and then
      exits non-zero;
  D5  fault-point enumeration over the extracted file-effect sequences:
      after every prefix (a failure at each step) "target intact or backup
      is a complete copy" holds when the backup flag is on;
  D6  eyaml-rotate-keys backs up and writes only under its changed flag.
"""
from __future__ import annotations

import ast
from typing import Any, Dict, Iterable, List, Optional, Set, Tuple

from sa.cli import (CliModel, ExitAnalysis, N, Z, E, is_truncating_open,
                    open_mode)
from sa.flow import Flow
from sa.guards import facts_at
from sa.model import (AnalysisError, FuncInfo, Program, ancestors,
                      enclosing_stmt, parent, resolve_call, src, walk_local)
from sa.peval import Const, PEval
from sa.report import Check

META = {
    "explanation": (
        "Static decision over yaml_set.py, yaml_merge.py and "
        "eyaml_rotate_keys.py: a clean/written typestate over main()'s "
        "control flow (interprocedural writes-files and may-exit summaries) "
        "shows no error exit can follow the first write; a backup-flag x "
        "copied typestate over each writer shows copy2(target, target+'.bak')"
        " precedes every truncating open whenever --backup may be set; the "
        "yaml-merge write is reached only with a zero abstract exit state "
        "and an existing --output is refused in validateargs; the ordered "
        "file-effect sequences of each writer (extracted by specialising "
        "the writer on backup on/off and stale backup present/absent, "
        "following calls) are interpreted over the abstract file state "
        "{intact, partial, new} x {absent, stale, partial, copy} and the "
        "invariant 'target intact or backup complete' is checked after a "
        "failure at every step.  This interprets code structure; nothing "
        "is executed."),
    "declined": [
        "byte-identity of the backup (delegated to shutil.copy2)",
        "behaviour under signals / power loss inside a single library call",
    ],
    "assumptions": [
        "open(path,'w') truncates; copy2 completes or leaves a partial "
        "destination; remove deletes; dump/json.dump write through the open "
        "handle"],
    "trusted_base": ["shutil.copy2", "os.remove", "open", "tempfile"],
}

SET = "yamlpath/commands/yaml_set.py"
MERGE = "yamlpath/commands/yaml_merge.py"
ROTATE = "yamlpath/commands/eyaml_rotate_keys.py"


def fn(prog: Program, rel: str, name: str) -> FuncInfo:
    hits = [f for f in prog.funcs_in(rel) if f.node.name == name]
    if len(hits) != 1:
        raise AnalysisError("{}:{} not found".format(rel, name))
    return hits[0]


# ---------------------------------------------------------------- D1/D3 ---
def d1_no_exit_after_write(chk: Check, model: CliModel) -> None:
    prog = chk.prog
    chk.rule("C17-D1", "yaml-set main(): once a statement that writes files "
             "has run, no statement that can exit non-zero follows on any "
             "path", floor=2)
    main = fn(prog, SET, "main")
    chk.analysed(main)
    ana = ExitAnalysis(model, main, set())
    ana.run()
    if not ana.writes:
        raise AnalysisError("yaml-set main() has no file-writing statement")
    for node, _ in ana.writes[:1]:
        chk.ok("C17-D1", main, node, src(node)[:60],
               "first file-writing statement of main()", False)
    bad = [(n, code) for n, code, written in ana.exits if written
           and code != Z]
    if bad:
        for n, code in bad:
            chk.fail("C17-D1", main, n, src(n)[:80],
                     "`{}` can end the run with a failure status after the "
                     "target file has been written".format(src(n)[:60]))
    else:
        chk.ok("C17-D1", main, main.node, "exits after write",
               "{} exit sites analysed; none reachable in state 'written'"
               .format(len(ana.exits)))
    # every exit site before the write is fine; also raise statements after
    for n in walk_local(main.node):
        if isinstance(n, ast.Raise):
            first = ana.writes[0][0]
            if n.lineno > first.lineno:
                chk.fail("C17-D1", main, n, "raise after write",
                         "an exception is raised after the file write")


def d3_merge(chk: Check, model: CliModel) -> None:
    prog = chk.prog
    chk.rule("C17-D3a", "yaml-merge writes only when the abstract exit "
             "state is zero", floor=1)
    chk.rule("C17-D3b", "an existing --output file is refused during "
             "argument validation (error flag that is never cleared and "
             "ends in sys.exit(1)), which main() runs before any I/O",
             floor=3)
    main = fn(prog, MERGE, "main")
    chk.analysed(main)
    ana = ExitAnalysis(model, main, set())
    ana.run()
    if not ana.writes:
        raise AnalysisError("yaml-merge main() has no writing statement")
    for node, vars_ in ana.writes:
        st = {v: a for v, a in vars_.items() if v in ana.sticky}
        if st and all(a == Z for a in st.values()):
            chk.ok("C17-D3a", main, node, src(node)[:60],
                   "reached only with {}".format(st))
        else:
            chk.fail("C17-D3a", main, node, src(node)[:60],
                     "the output is written although the exit state may be "
                     "non-zero ({}): a failed merge would leave a partial "
                     "write-out".format(st))
    va = fn(prog, MERGE, "validateargs")
    chk.analysed(va)
    # error flag: variable tested by the final `if flag: sys.exit(1)`
    last = va.node.body[-1]
    flag = None
    if isinstance(last, ast.If) and isinstance(last.test, ast.Name) and \
            any(isinstance(n, ast.Call) and src(n.func) == "sys.exit" and
                n.args and src(n.args[0]) not in ("0",)
                for n in walk_local(last)):
        flag = last.test.id
    if flag is None:
        chk.fail("C17-D3b", va, va.node, "validateargs tail",
                 "argument validation does not end in `if has_errors: "
                 "sys.exit(1)`")
        return
    chk.ok("C17-D3b", va, last, "if {}: sys.exit(1)".format(flag),
           "validation ends by exiting when the error flag is set")
    clears = [n for n in walk_local(va.node) if isinstance(n, ast.Assign)
              and src(n.targets[0]) == flag and
              not (isinstance(n.value, ast.Constant) and
                   n.value.value is True)]
    if len(clears) > 1:
        chk.fail("C17-D3b", va, clears[1], src(clears[1]),
                 "the error flag is cleared after it may have been set")
    # the exists(args.output) test sets the flag
    hit = None
    for n in walk_local(va.node):
        if isinstance(n, ast.Assign) and src(n.targets[0]) == flag and \
                isinstance(n.value, ast.Constant) and n.value.value is True:
            fs = [src(f.expr) for f in facts_at(n) if f.kind == "cond"
                  and f.pol]
            if any(t.replace(" ", "") == "exists(args.output)" for t in fs) \
                    and any(t == "args.output" for t in fs):
                hit = n
    if hit is not None:
        chk.ok("C17-D3b", va, hit, "exists(args.output) -> error flag",
               "an existing output file sets the error flag")
    else:
        chk.fail("C17-D3b", va, va.node, "exists(args.output)",
                 "an existing --output file is no longer refused: it would "
                 "be replaced")
    # main calls validateargs before anything that loads or writes
    calls = [n for n in main.node.body
             if any(isinstance(c, ast.Call) and src(c.func) == "validateargs"
                    for c in walk_local(n))]
    if calls:
        idx = main.node.body.index(calls[0])
        before = main.node.body[:idx]
        if any(model.stmt_writes(main, s) for s in before):
            chk.fail("C17-D3b", main, calls[0], "validateargs order",
                     "files are written before arguments are validated")
        else:
            chk.ok("C17-D3b", main, calls[0], "validateargs first",
                   "validation precedes all file effects of main()")
    else:
        chk.fail("C17-D3b", main, main.node, "validateargs",
                 "main() no longer validates its arguments")


# ---------------------------------------------------------------- D2 ------
def backup_names(fi: FuncInfo) -> Dict[str, str]:
    """backup variable -> target expression (``x = <target> + '.bak'``)."""
    out: Dict[str, str] = {}
    for n in walk_local(fi.node):
        if isinstance(n, ast.Assign) and isinstance(n.targets[0], ast.Name) \
                and isinstance(n.value, ast.BinOp) and \
                isinstance(n.value.op, ast.Add) and \
                isinstance(n.value.right, ast.Constant) and \
                n.value.right.value == ".bak":
            out[n.targets[0].id] = src(n.value.left)
    return out


class BackupOrder:
    """Typestate (flag, copied) over a writer."""

    def __init__(self, model: CliModel, fi: FuncInfo) -> None:
        self.model = model
        self.fi = fi
        self.names = backup_names(fi)
        self.violations: List[Tuple[ast.AST, str]] = []
        self.copies: List[ast.AST] = []
        self.truncs: List[Tuple[ast.AST, str]] = []
        self._seen: Set[Tuple[int, str]] = set()

    def transfer(self, stmt: ast.stmt, st: Any, flow: Flow) -> Iterable[Any]:
        flag, copied = st
        if isinstance(stmt, ast.Assign) and \
                isinstance(stmt.targets[0], ast.Name) and \
                stmt.targets[0].id in self.names:
            copied = False        # a new target / backup pair begins
        for call in [n for n in walk_local(stmt) if isinstance(n, ast.Call)]:
            fs = src(call.func).split(".")[-1]
            if fs == "copy2" and len(call.args) == 2:
                dst = src(call.args[1])
                srcx = src(call.args[0])
                altering = [k for k in call.keywords
                            if not (k.arg == "follow_symlinks" and
                                    isinstance(k.value, ast.Constant) and
                                    k.value.value is True)]
                if dst in self.names and self.names[dst] == srcx and \
                        altering:
                    self._bad(call, "the backup copy is taken with `{}`: "
                              "what lands in the '.bak' is no longer a copy "
                              "of the target's bytes (a link to the same "
                              "file shares the edit)".format(
                                  ", ".join(src(k) if hasattr(ast, "unparse")
                                            else k.arg for k in altering)))
                elif dst in self.names and self.names[dst] == srcx:
                    copied = True
                    self.copies.append(call)
                else:
                    self._bad(call, "copy2({}, {}) does not copy the target "
                              "to its own '.bak' name".format(srcx, dst))
            elif fs in ("remove", "unlink") and call.args and \
                    src(call.args[0]) in self.names:
                if copied:
                    self._bad(call, "the backup is removed after it was "
                              "taken")
                    copied = False
            elif self._truncates(call):
                key = (id(call), flag)
                if flag in ("T", "?") and not copied:
                    self._bad(call, "the target can be opened for writing "
                              "while --backup may be set and no backup copy "
                              "has been taken yet")
                elif key not in self._seen:
                    self._seen.add(key)
                    self.truncs.append((call, "flag={} copied={}".format(
                        flag, copied)))
        return [(flag, copied)]

    def _truncates(self, call: ast.Call) -> bool:
        if is_truncating_open(call):
            return True
        for c in resolve_call(self.model.prog, self.fi, call):
            if c.qual in self.model.truncates:
                return True
        return False

    def _bad(self, node: ast.AST, msg: str) -> None:
        key = (id(node), msg)
        if key not in self._seen:
            self._seen.add(key)  # type: ignore[arg-type]
            self.violations.append((node, msg))

    def branch(self, test: ast.AST, st: Any, flow: Flow):
        flag, copied = st
        t = src(test)
        if t.endswith(".backup"):
            ts = [] if flag == "F" else [("T", copied)]
            fs = [] if flag == "T" else [("F", copied)]
            return ts, fs
        return [st], [st]

    def run(self) -> None:
        flow = Flow(self.transfer, self.branch)
        flow.run(self.fi.node.body, [("?", False)])


def d2_backup_first(chk: Check, model: CliModel) -> None:
    prog = chk.prog
    chk.rule("C17-D2", "backup copy2(target, target+'.bak') precedes every "
             "truncating open on every path where --backup may be set; the "
             "backup is not removed afterwards", floor=3)
    writers = [fn(prog, SET, "write_output_document"),
               fn(prog, MERGE, "write_output_document"),
               fn(prog, ROTATE, "main")]
    for w in writers:
        chk.analysed(w)
        bo = BackupOrder(model, w)
        bo.run()
        if not bo.copies:
            chk.fail("C17-D2", w, w.node, "copy2",
                     "writer takes no backup copy (copy2(target, "
                     "target+'.bak') not found)")
        if not bo.truncs and not bo.violations:
            raise AnalysisError("no truncating open in " + w.short)
        for node, msg in bo.violations:
            chk.fail("C17-D2", w, node, src(node)[:70], msg)
        for node, why in bo.truncs:
            chk.ok("C17-D2", w, node, src(node)[:70],
                   "truncating step reached with " + why)


_POSITIVE_REBIND = """
def main():
    args = processcli()
    if not nodes:
        args.backup = False
    write_output_document(args)
"""


def _option_rebinds(fn_node: ast.AST, option: str) -> List[ast.AST]:
    out: List[ast.AST] = []
    for n in walk_local(fn_node):
        if isinstance(n, ast.Attribute) and n.attr == option and \
                isinstance(n.ctx, (ast.Store, ast.Del)):
            out.append(n)
        if isinstance(n, ast.Call) and src(n.func) in ("setattr", "delattr") \
                and len(n.args) >= 2 and \
                isinstance(n.args[1], ast.Constant) and \
                n.args[1].value == option:
            out.append(n)
    return out


def d2b_backup_choice_kept(chk: Check) -> None:
    """C17-D2 proves 'backup before truncation wherever --backup *may be
    set*' inside the writers.  That is only worth something if the option
    the writer sees is the one the user gave: a tool that clears it on the
    way (e.g. 'nothing matched, so no backup') still rewrites the file --
    without the promised pre-image."""
    prog = chk.prog
    chk.rule("C17-D2b", "no function of yaml-set, yaml-merge or "
             "eyaml-rotate-keys re-binds the parsed --backup option",
             floor=20)
    sample = ast.parse(_POSITIVE_REBIND).body[0]
    if len(_option_rebinds(sample, "backup")) != 1:
        raise AnalysisError("option re-binding detector lost its positive "
                            "sample")
    for fi in prog.functions.values():
        if fi.module.relpath not in (SET, MERGE, ROTATE):
            continue
        bad = _option_rebinds(fi.node, "backup")
        for b in bad:
            st = b
            while parent(st) is not None and not isinstance(st, ast.stmt):
                st = parent(st)
            chk.fail("C17-D2b", fi, st, "{}: --backup re-bound".format(
                fi.short),
                "`{}` overrides the user's --backup before the writer runs: "
                "the file is still rewritten but no .bak copy of the "
                "pre-image is taken".format(src(st)[:60]))
        if not bad:
            chk.ok("C17-D2b", fi, fi.node, fi.short,
                   "does not assign the option", False)


# ---------------------------------------------------------------- D4 ------
def d4_restore(chk: Check, model: CliModel) -> None:
    prog = chk.prog
    chk.rule("C17-D4", "yaml-set restore path: the pre-image is copied to a "
             "temporary file before the target is opened for writing; the "
             "handler rewrites the target from it before removing the "
             "backup, then exits non-zero", floor=4)
    fi = fn(prog, SET, "save_to_yaml_file")
    chk.analysed(fi)
    opens = [n for n in walk_local(fi.node) if isinstance(n, ast.Call)
             and open_mode(n) is not None]
    rb = [n for n in opens if open_mode(n) == "rb"]
    w = [n for n in opens if open_mode(n) in ("w", "wt")]
    wb = [n for n in opens if open_mode(n) == "wb"]
    copies = [n for n in walk_local(fi.node) if isinstance(n, ast.Call)
              and src(n.func).endswith("copyfileobj")]
    if len(rb) != 1 or len(w) != 1 or len(wb) != 1 or len(copies) != 2:
        chk.fail("C17-D4", fi, fi.node, "save_to_yaml_file shape",
                 "expected one read-open, one truncating open, one restore "
                 "open and two copyfileobj calls (found {}/{}/{}/{})".format(
                     len(rb), len(w), len(wb), len(copies)))
        return
    pre, post = sorted(copies, key=lambda n: n.lineno)
    if src(rb[0].args[0]) == src(w[0].args[0]) and \
            rb[0].lineno < pre.lineno < w[0].lineno and \
            _inside(pre, _with_of(rb[0])) and \
            not _inside(w[0], _with_of(rb[0])):
        chk.ok("C17-D4", fi, pre, src(pre),
               "pre-image copied from `{}` before it is opened 'w'".format(
                   src(rb[0].args[0])))
    else:
        chk.fail("C17-D4", fi, pre, src(pre),
                 "the pre-image is not saved before the target is "
                 "truncated")
    handlers = [h for h in walk_local(fi.node)
                if isinstance(h, ast.ExceptHandler)]
    if len(handlers) != 1:
        chk.fail("C17-D4", fi, fi.node, "handler", "restore handler missing")
        return
    h = handlers[0]
    rem = [n for n in walk_local(h) if isinstance(n, ast.Call)
           and src(n.func).split(".")[-1] in ("remove", "unlink")]
    ok = _inside(wb[0], h) and _inside(post, h) and \
        src(wb[0].args[0]) == src(w[0].args[0]) and \
        wb[0].lineno < post.lineno and \
        all(r.lineno > post.lineno for r in rem)
    if ok:
        chk.ok("C17-D4", fi, post, src(post),
               "target rewritten from the saved pre-image before the backup "
               "is removed")
    else:
        chk.fail("C17-D4", fi, h, "restore handler order",
                 "the handler removes the backup before (or without) "
                 "restoring the target from the saved pre-image")
    # the failed writer's handle still buffers part of the new document:
    # while it is open, restoring through a second handle is undone when
    # the first one is flushed on leaving its `with`
    wwith = _with_of(w[0])
    hname = None
    if isinstance(wwith, ast.With):
        for item in wwith.items:
            if item.context_expr is w[0] and item.optional_vars is not None:
                hname = src(item.optional_vars)
    if wwith is not None and _inside(wb[0], wwith):
        closes = [n for s_ in h.body for n in ast.walk(s_)
                  if isinstance(n, ast.Call) and hname is not None and
                  src(n.func) == hname + ".close" and
                  n.lineno < wb[0].lineno and s_ in h.body and
                  isinstance(s_, ast.Expr)]
        if closes:
            chk.ok("C17-D4", fi, closes[0], src(closes[0]),
                   "the failed writer's handle is closed before the target "
                   "is rewritten from the pre-image")
        else:
            chk.fail("C17-D4", fi, wb[0], "restore while `{}` is open"
                     .format(hname or "the writer"),
                     "the restore runs inside the writer's `with` without "
                     "closing its handle first: the buffered partial "
                     "document is flushed over the restored content when "
                     "the `with` is left")
    else:
        chk.ok("C17-D4", fi, wb[0], "restore outside the writer's with",
               "the writer's handle is closed by then")
    last = h.body[-1]
    if model.stmt_never_returns(fi, last) and isinstance(last, ast.Expr) and \
            len(last.value.args) > 1 and \
            isinstance(last.value.args[1], ast.Constant) and \
            last.value.args[1].value not in (0, None):
        chk.ok("C17-D4", fi, last, src(last)[:50],
               "handler ends in a non-zero critical()")
    else:
        chk.fail("C17-D4", fi, last, src(last)[:50],
                 "after restoring, the handler does not exit non-zero")


def _with_of(call: ast.Call) -> Optional[ast.AST]:
    for a in ancestors(call):
        if isinstance(a, ast.With):
            return a
    return None


def _inside(node: ast.AST, container: Optional[ast.AST]) -> bool:
    return container is not None and any(a is container
                                         for a in ancestors(node))


# ---------------------------------------------------------------- D5 ------
Effect = Tuple[str, str, int]     # kind, role, line


class EffectExtractor:
    """Ordered file-effect sequences of a writer for one flag valuation."""

    def __init__(self, model: CliModel, names: Dict[str, str]) -> None:
        self.model = model
        self.names = dict(names)

    def role(self, e: ast.AST) -> str:
        s = src(e)
        if s in self.names or s.endswith(".bak"):
            return "B"
        if "tmp" in s:
            return "tmp"
        return "T"

    def sequences(self, fi: FuncInfo, stmts: List[ast.stmt], env: Dict,
                  depth: int = 0) -> List[List[Effect]]:
        pe = PEval()
        res = pe.specialise(stmts, env, pinned=list(self.names))
        return self._block(fi, res, env, depth)

    def _block(self, fi: FuncInfo, stmts: List[ast.stmt], env: Dict,
               depth: int) -> List[List[Effect]]:
        seqs: List[List[Effect]] = [[]]
        for s in stmts:
            nxt: List[List[Effect]] = []
            for tail in self._stmt(fi, s, env, depth):
                for head in seqs:
                    if head and head[-1][0] == "exit":
                        nxt.append(head)
                    else:
                        nxt.append(head + tail)
            # dedupe
            uniq = []
            for q in nxt:
                if q not in uniq:
                    uniq.append(q)
            seqs = uniq[:64]
        return seqs

    def _expr_effects(self, fi: FuncInfo, node: ast.AST, env: Dict,
                      depth: int) -> List[List[Effect]]:
        seqs: List[List[Effect]] = [[]]
        calls = [n for n in walk_local(node) if isinstance(n, ast.Call)]
        calls.sort(key=lambda n: (n.lineno, n.col_offset))
        for c in calls:
            fs = src(c.func).split(".")[-1]
            adds: List[List[Effect]] = [[]]
            if fs == "copy2" and len(c.args) == 2:
                adds = [[("copy2", self.role(c.args[1]), c.lineno)]]
            elif fs in ("remove", "unlink") and c.args:
                adds = [[("remove", self.role(c.args[0]), c.lineno)]]
            elif fs == "copyfileobj" and len(c.args) == 2:
                dst = "tmp" if "tmp" in src(c.args[1]) else "T"
                adds = [[("copyobj", dst, c.lineno)]]
            elif open_mode(c) is not None and c.args:
                m = open_mode(c) or "r"
                if any(x in m for x in "wax+"):
                    adds = [[("open_w", self.role(c.args[0]), c.lineno)]]
            elif fs in ("dump", "dump_all") and len(c.args) >= 2 and \
                    "stdout" not in src(c.args[1]):
                adds = [[("dump", "T", c.lineno)]]
            elif self.model.call_never_returns(fi, c):
                adds = [[("exit", "-", c.lineno)]]
            elif depth < 4:
                for callee in resolve_call(self.model.prog, fi, c):
                    if callee.qual in self.model.writes and \
                            callee.module.relpath.startswith(
                                "yamlpath/commands/"):
                        self.names.update(backup_names(callee))
                        adds = self.sequences(callee, callee.node.body, env,
                                              depth + 1)
            seqs = [h + a for h in seqs for a in adds][:64]
        return seqs

    def _stmt(self, fi: FuncInfo, s: ast.stmt, env: Dict, depth: int
              ) -> List[List[Effect]]:
        if isinstance(s, ast.If):
            t = self._expr_effects(fi, s.test, env, depth)
            a = self._block(fi, s.body, env, depth)
            b = self._block(fi, s.orelse, env, depth) if s.orelse else [[]]
            return [x + y for x in t for y in a + b]
        if isinstance(s, (ast.With, ast.AsyncWith)):
            heads: List[List[Effect]] = [[]]
            for item in s.items:
                heads = [h + e for h in heads for e in
                         self._expr_effects(fi, item.context_expr, env, depth)]
            body = self._block(fi, s.body, env, depth)
            return [h + b for h in heads for b in body]
        if isinstance(s, ast.Try):
            body = self._block(fi, s.body, env, depth)
            out = list(body)
            for h in s.handlers:
                hs = self._block(fi, h.body, env, depth)
                for b in body:
                    # the exception strikes during the last effect of the
                    # protected block (the dump)
                    for k in range(1, len(b) + 1):
                        for x in hs:
                            out.append(b[:k] + [("fault", "-", h.lineno)] + x)
            return out
        if isinstance(s, (ast.For, ast.While)):
            return self._block(fi, s.body, env, depth)
        if isinstance(s, (ast.FunctionDef, ast.ClassDef)):
            return [[]]
        return self._expr_effects(fi, s, env, depth)


def interpret(seq: List[Effect], backup_on: bool, stale: bool
              ) -> Optional[str]:
    """Abstract file-state interpretation; returns a violation text."""
    T, B = "intact", ("stale" if stale else "absent")
    tmp = "none"

    def bad(where: str) -> Optional[str]:
        if backup_on and not (T == "intact" or B == "copy"):
            return ("after a failure {}: target is {} and backup is {}"
                    .format(where, T, B))
        return None
    for kind, role, line in seq:
        if kind == "remove" and role == "B":
            B = "absent"
        elif kind == "copy2" and role == "B":
            B = "partial"
            v = bad("during copy2 (line {})".format(line))
            if v:
                return v
            B = "copy" if T == "intact" else "partial"
        elif kind == "copyobj" and role == "tmp":
            tmp = "copy" if T == "intact" else "junk"
        elif kind == "open_w" and role == "T":
            T = "partial"
        elif kind == "dump":
            T = "partial"
            v = bad("during the dump (line {})".format(line))
            if v:
                return v
            T = "new"
        elif kind == "copyobj" and role == "T":
            T = "intact" if tmp == "copy" else "partial"
        elif kind == "fault":
            pass
        v = bad("at/after {} (line {})".format(kind, line))
        if v:
            return v
        if kind == "exit":
            break
    return None


def d5_fault_points(chk: Check, model: CliModel) -> None:
    prog = chk.prog
    chk.rule("C17-D5", "for every extracted file-effect sequence and a "
             "failure at every step: target intact or backup a complete "
             "copy, whenever --backup is on", floor=8)
    writers = [(fn(prog, SET, "write_output_document"),
                {"args.yaml_file.strip() == '-'": Const(False)}),
               (fn(prog, MERGE, "write_output_document"),
                {"args.output": Const("out.yaml")})]
    total = 0
    for w, base in writers:
        names = backup_names(w)
        for backup_on in (True, False):
            for stale in (True, False):
                env: Dict[str, Any] = dict(base)
                env["args.backup"] = Const(backup_on)
                for b in names:
                    env["exists({})".format(b)] = Const(stale)
                ex = EffectExtractor(model, names)
                seqs = ex.sequences(w, w.node.body, env)
                if not any(any(k == "open_w" for k, _, _ in q)
                           for q in seqs):
                    raise AnalysisError(
                        "no truncating effect extracted for " + w.short)
                for q in seqs:
                    total += 1
                    label = "{} backup={} stale={} :: {}".format(
                        w.module.relpath.split("/")[-1], backup_on, stale,
                        " ; ".join("{}({})".format(k, r) for k, r, _ in q))
                    v = interpret(q, backup_on, stale)
                    if v is None:
                        chk.ok("C17-D5", w, None, label,
                               "invariant holds after a failure at each of "
                               "{} steps".format(len(q)))
                    else:
                        chk.fail("C17-D5", w, None, label, v)
    chk.notes.append("effect sequences interpreted: {}".format(total))


# ---------------------------------------------------------------- D6 ------
def d6_rotate(chk: Check, model: CliModel, rid: str = "C17-D6") -> None:
    prog = chk.prog
    chk.rule(rid, "eyaml-rotate-keys takes a backup and writes only "
             "under its file-changed flag", floor=2)
    main = fn(prog, ROTATE, "main")
    chk.analysed(main)
    n_sites = 0
    for n in walk_local(main.node):
        if isinstance(n, ast.Call) and (
                is_truncating_open(n) or
                src(n.func).split(".")[-1] in ("copy2", "remove")):
            n_sites += 1
            flags = [f for f in facts_at(n) if f.kind == "cond" and f.pol
                     and isinstance(f.expr, ast.Name)]
            changed = [f for f in flags if _set_after_success(main, f.expr.id)]
            if changed:
                chk.ok(rid, main, n, src(n)[:60],
                       "guarded by `{}`".format(changed[0]))
            else:
                chk.fail(rid, main, n, src(n)[:60],
                         "file effect not guarded by the changed flag: an "
                         "untouched file would be rewritten or backed up")
    if n_sites < 2:
        raise AnalysisError("rotate-keys file effects not found")


def _set_after_success(fi: FuncInfo, name: str) -> bool:
    """flag is initialised False and set True only after the re-encryption
    call's try block (not inside a handler)."""
    sets = [n for n in walk_local(fi.node) if isinstance(n, ast.Assign)
            and src(n.targets[0]) == name]
    trues = [n for n in sets if isinstance(n.value, ast.Constant)
             and n.value.value is True]
    falses = [n for n in sets if isinstance(n.value, ast.Constant)
              and n.value.value is False]
    if not trues or not falses or len(trues) + len(falses) != len(sets):
        return False
    for t in trues:
        if any(isinstance(a, ast.ExceptHandler) for a in ancestors(t)):
            return False
        blk = parent(t)
        body = getattr(blk, "body", [])
        if t not in body:
            return False
        prev = body[:body.index(t)]
        ok = False
        for s in reversed(prev):
            if isinstance(s, ast.Try) and "set_eyaml_value" in src(s):
                # every handler leaves the iteration
                ok = all(isinstance(h.body[-1], (ast.Continue, ast.Break,
                                                 ast.Raise, ast.Return))
                         for h in s.handlers)
                break
        if not ok:
            return False
    return True


def _shadowed_by_prepass(prog: Program, fi: FuncInfo, r: ast.Raise,
                         cls: str) -> bool:
    """``r`` sits in a loop of ``fi`` and, before that loop, ``fi`` calls
    one of its class's methods on the same collection, which raises ``cls``
    itself (the refusal pre-pass of C04-D4b): for every caller of ``fi``
    the pre-pass raises first, so the wording of ``r`` is never seen."""
    loops = [a for a in ancestors(r) if isinstance(a, (ast.For, ast.While))
             and a in fi.node.body]
    if not loops:
        return False
    loop = loops[0]
    for st in fi.node.body[:fi.node.body.index(loop)]:
        for c in ast.walk(st):
            if not (isinstance(c, ast.Call) and
                    src(c.func).startswith("self._") and c.args and
                    src(c.args[0]) == src(loop.iter.args[0]
                                          if isinstance(loop.iter, ast.Call)
                                          and loop.iter.args
                                          else loop.iter)):
                continue
            for g in resolve_call(prog, fi, c):
                if g is not fi and any(
                        isinstance(x, ast.Raise) and
                        isinstance(x.exc, ast.Call) and
                        src(x.exc.func) == cls
                        for x in walk_local(g.node)):
                    return True
    return False


def d8_message_coupling(chk: Check) -> None:
    """yaml-set tells "refused to delete the document root" from other
    library errors by a phrase of the exception's message and silently
    drops the others.  The phrase must occur in a message the library
    actually raises, or the refusal is swallowed: the tool exits 0 and
    rewrites the file (and its backup)."""
    prog = chk.prog
    chk.rule("C17-D8", "every message phrase a tool tests an exception for "
             "occurs in a message raised by the library", floor=1)
    raised: List[str] = []
    by_class: Dict[str, List[Tuple[FuncInfo, ast.Raise, str]]] = {}
    for fi in prog.functions.values():
        if fi.module.relpath.startswith("yamlpath/commands/"):
            continue
        for r in walk_local(fi.node):
            if isinstance(r, ast.Raise) and isinstance(r.exc, ast.Call):
                whole = ""
                for a in ast.walk(r.exc):
                    if isinstance(a, ast.Constant) and \
                            isinstance(a.value, str):
                        raised.append(a.value)
                        whole += a.value
                by_class.setdefault(src(r.exc.func), []).append(
                    (fi, r, whole))
    n = 0
    for fi in prog.functions.values():
        if not fi.module.relpath.startswith("yamlpath/commands/"):
            continue
        for c in walk_local(fi.node):
            if isinstance(c, ast.Compare) and len(c.ops) == 1 and \
                    isinstance(c.ops[0], (ast.In, ast.NotIn)) and \
                    isinstance(c.left, ast.Constant) and \
                    isinstance(c.left.value, str) and \
                    isinstance(c.comparators[0], ast.Attribute) and \
                    c.comparators[0].attr in ("user_message", "message"):
                n += 1
                phrase = c.left.value
                text = "{}: {!r} in <exception message>".format(
                    fi.short, phrase[:40])
                if any(phrase in m for m in raised):
                    chk.ok("C17-D8", fi, c, text,
                           "phrase found in a raised message")
                    # the phrase stands for "an exception of that class":
                    # every raise of the class must carry it, or one way of
                    # reaching the same refusal goes unrecognised
                    for cls, sites in sorted(by_class.items()):
                        if not any(phrase in w for _, _, w in sites):
                            continue
                        for rfi, r, w in sites:
                            t2 = "{}: raise {}".format(rfi.short, cls)
                            if _shadowed_by_prepass(prog, rfi, r, cls):
                                chk.ok("C17-D8", rfi, r, t2,
                                       "shadowed: a pre-pass of the same "
                                       "function raises this class first")
                                continue
                            if phrase in w:
                                chk.ok("C17-D8", rfi, r, t2,
                                       "carries the phrase")
                            else:
                                chk.fail("C17-D8", rfi, r, t2,
                                         "this {} does not carry the "
                                         "phrase {!r} by which {} recognises "
                                         "the refusal".format(
                                             cls, phrase, fi.short))
                else:
                    chk.fail("C17-D8", fi, c, text,
                             "no message raised by the library contains "
                             "this phrase any more: the error it is meant "
                             "to recognise is treated like the ones the "
                             "tool ignores")
    if n == 0:
        raise AnalysisError("no message-phrase test found in the tools")


def d12_json_trial_before_open(chk: Check) -> None:
    """Not every YAML document can be written as JSON (a date, a list or a
    binary value as Hash key).  yaml-merge finds that out *before* it opens
    the output: prepare_for_dump, which write_output_document calls for
    every document ahead of `open(..., 'w')`, serialises the document to
    JSON once (and reloads it).  Without that trial the failure happens
    inside the `with open(...)` block: exit 1 with the --overwrite target
    truncated to a JSON fragment, or a partial new --output file."""
    prog = chk.prog
    chk.rule("C17-D12", "Merger.prepare_for_dump serialises the document to "
             "JSON (json.dump / json.dumps) in its JSON arm, and "
             "write_output_document calls it before opening the output",
             floor=2)
    fi = prog.func("Merger.prepare_for_dump")
    trial = [c for c in walk_local(fi.node) if isinstance(c, ast.Call) and
             src(c.func) in ("json.dump", "json.dumps")]
    if not trial:
        # ... or the writer itself serialises before its first open()
        w0 = prog.func("yaml_merge.write_output_document")
        opens0 = [c.lineno for c in walk_local(w0.node)
                  if isinstance(c, ast.Call) and src(c.func) == "open"]
        trial = [c for c in walk_local(w0.node) if isinstance(c, ast.Call)
                 and src(c.func) in ("json.dump", "json.dumps") and opens0
                 and c.lineno < min(opens0)]
    if trial:
        chk.ok("C17-D12", fi, trial[0], "prepare_for_dump: JSON trial",
               src(trial[0])[:60])
    else:
        chk.fail("C17-D12", fi, fi.node, "prepare_for_dump: JSON trial",
                 "the document is no longer serialised to JSON before the "
                 "output file is opened: a key JSON cannot carry makes "
                 "json.dump raise inside `with open(output, 'w')`, after "
                 "the target was truncated")
    w = prog.func("yaml_merge.write_output_document")
    calls = [c for c in walk_local(w.node) if isinstance(c, ast.Call) and
             src(c.func).endswith(".prepare_for_dump")]
    opens = [c for c in walk_local(w.node) if isinstance(c, ast.Call) and
             src(c.func) == "open"]
    if not calls or not opens:
        raise AnalysisError("prepare_for_dump / open in "
                            "write_output_document not found")
    if max(c.lineno for c in calls) < min(o.lineno for o in opens):
        chk.ok("C17-D12", w, calls[0], "write_output_document: order",
               "every prepare_for_dump precedes open()")
    else:
        chk.fail("C17-D12", w, opens[0], "write_output_document: order",
                 "the output is opened before every document has been "
                 "prepared")


def d15_anchor_name_is_cleaned_before_the_write(chk: Check) -> None:
    """yaml-set has one write call and everything that can refuse the
    request must happen before it.  The `--anchor` name is one such thing:
    a blank (or a pasted `&` / `*`) in it is removed by validateargs,
    because the emitter refuses such a name only while it is writing --
    after the target was truncated.  The clean-up is folded over a sample
    name; a `.translate()` table with text keys (looked up by code point,
    so it never matches) is reported as such."""
    prog = chk.prog
    chk.rule("C17-D15", "validateargs of yaml-set removes blanks, `&` and "
             "`*` from the --anchor name (folded over a sample name)",
             floor=1)
    fi = fn(prog, SET, "validateargs")
    chk.analysed(fi)
    defs = [a for a in walk_local(fi.node) if isinstance(a, ast.Assign) and
            src(a.targets[0]).endswith(".anchor")]
    if not defs:
        chk.fail("C17-D15", fi, fi.node, "anchor clean-up",
                 "the --anchor name reaches the writer as typed: a blank "
                 "in it makes the emitter fail after the file was "
                 "truncated")
        return
    for a in defs:
        text = "{} = {}".format(src(a.targets[0]), src(a.value)[:60])
        tr = [c for c in ast.walk(a.value) if isinstance(c, ast.Call) and
              isinstance(c.func, ast.Attribute) and
              c.func.attr == "translate" and c.args and
              isinstance(c.args[0], ast.Dict) and any(
                  isinstance(k, ast.Constant) and isinstance(k.value, str)
                  for k in c.args[0].keys)]
        if tr:
            chk.fail("C17-D15", fi, tr[0], text,
                     "str.translate() looks its table up by code point; a "
                     "table keyed by one-character strings never matches, "
                     "the name is handed on unchanged and the write dies "
                     "in the emitter with the target already truncated")
            continue
        pe = PEval()
        env = {src(a.targets[0]): Const(" & shared *name ")}
        got = pe.value(a.value, env)
        if not isinstance(got, Const):
            raise AnalysisError("anchor clean-up `{}` not decided by "
                                "folding".format(src(a.value)[:60]))
        if got.value == "sharedname":
            chk.ok("C17-D15", fi, a, text, "' & shared *name ' -> "
                   "'sharedname'")
        else:
            chk.fail("C17-D15", fi, a, text,
                     "' & shared *name ' becomes {!r}: a character the "
                     "emitter refuses survives until the write".format(
                         got.value))


def run(chk: Check) -> None:
    model = CliModel(chk.prog)
    d1_no_exit_after_write(chk, model)
    d2_backup_first(chk, model)
    d2b_backup_choice_kept(chk)
    d3_merge(chk, model)
    d4_restore(chk, model)
    d5_fault_points(chk, model)
    d6_rotate(chk, model)
    d8_message_coupling(chk)
    d12_json_trial_before_open(chk)
    # "unreadable input: non-zero status, file unchanged": a failed load
    # must not be mistaken for an empty document that is then written out
    from rules.c16 import d8_loaded_documents
    funcs = [f for f in chk.prog.functions.values()
             if f.module.relpath in (SET, MERGE, ROTATE)]
    d8_loaded_documents(chk, funcs, "C17-D7", 3)
    # a required-match instruction that is dropped on the way turns the
    # gathering query into a creating one: the run that should have failed
    # before writing rewrites the file
    from rules.shared import keyword_coupling_rule
    keyword_coupling_rule(chk, "C17-D9", (SET, MERGE, ROTATE), 5)
    d15_anchor_name_is_cleaned_before_the_write(chk)
    from rules.c19 import d9_whole_file_writes_truncate
    d9_whole_file_writes_truncate(chk, "C17-D10", (SET, MERGE, ROTATE))
    from rules.shared import no_jump_out_of_finally_rule
    no_jump_out_of_finally_rule(
        chk, "C17-D11", (SET, MERGE, ROTATE,
                         "yamlpath/wrappers/consoleprinter.py"), 40)
