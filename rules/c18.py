"""C18 -- multi-document merges combine documents as the mode defines.

Decided clauses (DESIGN.md section 4, C18):
  D1  mode routing of merge_docs (partial evaluation per MultiDocModes
      member); unreadable right-hand input returns non-zero before merging;
  D2  iteration domains of the three drivers: condense-all folds every
      left document after the first, removes the absorbed ones, then folds
      every right document, in order; matrix is a full nested iteration
      that leaves only on error; merge-across's guards, evaluated by the
      partial evaluator for every pair of stream lengths 0..4 and every
      index, merge index i exactly for i < min(len) and append rhs[i]
      exactly for len(lhs) <= i < len(rhs);
  D3  every handler in the drivers records a non-zero state.
"""
from __future__ import annotations

import ast
from typing import Any, Dict, List, Optional, Tuple

from sa.guards import facts_at
from sa.model import (AnalysisError, FuncInfo, Program, ancestors, parent,
                      src, walk_local)
from sa.peval import Const, Enum, PEval, show
from sa.report import Check

META = {
    "explanation": (
        "Static decision over yaml_merge.py's multi-document drivers: "
        "merge_docs is specialised for each MultiDocModes member and must "
        "call exactly the matching driver; the loop structure of "
        "merge_condense_all and merge_matrix is compared with the mode "
        "definitions (slice [1:], reversed removal, whole right stream, "
        "break only inside error handlers); merge_across's guard ladder is "
        "evaluated by the partial evaluator over all stream-length pairs "
        "0..4 x 0..4 and every index, giving the action (merge / append / "
        "stop) per index, which must equal the definition and keep every "
        "subscript in bounds.  Nothing is executed."),
    "declined": ["content of the merged documents (C05's declined part)"],
    "assumptions": ["len() of the streams is fixed during merge_across "
                    "except for the documented appends"],
    "trusted_base": ["Python range/slice semantics"],
}

MERGE = "yamlpath/commands/yaml_merge.py"
ROUTES = {"CONDENSE_ALL": "merge_condense_all", "MERGE_ACROSS": "merge_across",
          "MATRIX_MERGE": "merge_matrix"}


def fn(prog: Program, name: str) -> FuncInfo:
    hits = [f for f in prog.funcs_in(MERGE) if f.node.name == name]
    if len(hits) != 1:
        raise AnalysisError("yaml_merge.{} not found".format(name))
    return hits[0]


def d1_routing(chk: Check) -> None:
    prog = chk.prog
    chk.rule("C18-D1", "merge_docs routes each MultiDocModes member to its "
             "driver and returns non-zero before merging when the "
             "right-hand stream cannot be read", floor=4)
    fi = fn(prog, "merge_docs")
    chk.analysed(fi)
    members = prog.enum_members("MultiDocModes")
    if set(members) != set(ROUTES):
        raise AnalysisError("MultiDocModes members changed: {}".format(
            members))
    # role: the local holding the mode
    mode_var = None
    for n in walk_local(fi.node):
        if isinstance(n, ast.Assign) and isinstance(n.value, ast.Call) and \
                src(n.value.func).endswith("get_multidoc_mode"):
            mode_var = src(n.targets[0])
    if mode_var is None:
        raise AnalysisError("mode variable of merge_docs not found")
    pe = PEval(enum_classes={"MultiDocModes"})
    drivers = set(ROUTES.values())
    for m in members:
        res = pe.specialise(fi.node.body, {mode_var: Enum("MultiDocModes", m)},
                            pinned=[mode_var])
        called = [src(c.func) for s in res for c in walk_local(s)
                  if isinstance(c, ast.Call) and src(c.func) in drivers]
        if called == [ROUTES[m]]:
            chk.ok("C18-D1", fi, None, m, "calls only " + ROUTES[m])
        else:
            chk.fail("C18-D1", fi, None, m,
                     "mode {} reaches driver(s) {} instead of {}".format(
                         m, called or "none", ROUTES[m]),
                     {"residual": show(res)[:500]})
    # unreadable rhs: return non-zero before any driver call
    ok = False
    for n in walk_local(fi.node):
        if isinstance(n, ast.If) and isinstance(n.test, ast.UnaryOp) and \
                isinstance(n.test.op, ast.Not) and "loaded" in src(n.test):
            rets = [s for s in n.body if isinstance(s, ast.Return)]
            first_driver = min((c.lineno for c in walk_local(fi.node)
                                if isinstance(c, ast.Call) and
                                src(c.func) in drivers), default=10 ** 9)
            if rets and isinstance(rets[0].value, ast.Constant) and \
                    rets[0].value.value not in (0, None) and \
                    n.lineno < first_driver:
                ok = True
                chk.ok("C18-D1", fi, n, "if " + src(n.test),
                       "returns {} before any merge".format(
                           rets[0].value.value))
    if not ok:
        chk.fail("C18-D1", fi, fi.node, "unreadable right-hand stream",
                 "merge_docs does not return non-zero before merging when "
                 "the right-hand documents failed to load")


def _loops(fi: FuncInfo) -> List[ast.For]:
    return [n for n in walk_local(fi.node) if isinstance(n, ast.For)]


def _leaves_outside_handler(loop: ast.For) -> List[ast.AST]:
    out = []
    for n in walk_local(loop):
        if isinstance(n, (ast.Break, ast.Continue, ast.Return)):
            if not any(isinstance(a, ast.ExceptHandler)
                       for a in ancestors(n)):
                out.append(n)
    return out


def d2_condense(chk: Check) -> None:
    prog = chk.prog
    chk.rule("C18-D2a", "condense-all: every left document after the first "
             "is merged into the first in order, the absorbed ones are then "
             "removed, then every right document is merged in order",
             floor=4)
    fi = fn(prog, "merge_condense_all")
    chk.analysed(fi)
    p_l, p_r = fi.params()[1], fi.params()[2]
    prime = None
    for n in walk_local(fi.node):
        if isinstance(n, ast.Assign) and src(n.value) == p_l + "[0]":
            prime = src(n.targets[0])
    if prime is None:
        chk.fail("C18-D2a", fi, fi.node, "prime document",
                 "the fold target is not the first left document")
        return
    loops = _loops(fi)
    lhs_loop = [l for l in loops if src(l.iter) == p_l + "[1:]"]
    del_loop = [l for l in loops
                if src(l.iter).replace(" ", "") in (
                    "reversed(range(1,len({})))".format(p_l),)]
    rhs_loop = [l for l in loops if src(l.iter) == p_r]
    if lhs_loop and not _leaves_outside_handler(lhs_loop[0]) and \
            _merges(lhs_loop[0], prime, src(lhs_loop[0].target) + ".data"):
        chk.ok("C18-D2a", fi, lhs_loop[0], "for {} in {}".format(
            src(lhs_loop[0].target), src(lhs_loop[0].iter)),
            "all left documents after the first, in order, no early leave")
    else:
        chk.fail("C18-D2a", fi, fi.node, "left fold",
                 "the left stream is not folded as `for doc in lhs[1:]: "
                 "first.merge_with(doc.data)` without early exit")
    if del_loop and any(isinstance(s, ast.Delete) and
                        src(s.targets[0]) == "{}[{}]".format(
                            p_l, src(del_loop[0].target))
                        for s in del_loop[0].body):
        chk.ok("C18-D2a", fi, del_loop[0], "removal loop",
               "absorbed documents 1..n-1 are deleted back to front")
    else:
        chk.fail("C18-D2a", fi, fi.node, "removal of absorbed documents",
                 "absorbed left documents are not removed with `for i in "
                 "reversed(range(1, len(lhs))): del lhs[i]`")
    if rhs_loop and not _leaves_outside_handler(rhs_loop[0]) and \
            _merges(rhs_loop[0], prime, src(rhs_loop[0].target) + ".data"):
        chk.ok("C18-D2a", fi, rhs_loop[0], "for {} in {}".format(
            src(rhs_loop[0].target), p_r),
            "every right document, in order, no early leave")
    else:
        chk.fail("C18-D2a", fi, fi.node, "right fold",
                 "the right stream is not folded completely in order")
    order = [l.lineno for l in (lhs_loop + del_loop + rhs_loop)]
    if len(order) == 3 and order == sorted(order):
        chk.ok("C18-D2a", fi, fi.node, "phase order",
               "left fold, removal, right fold")
    else:
        chk.fail("C18-D2a", fi, fi.node, "phase order",
                 "the three phases are missing or out of order")


def _merges(loop: ast.For, receiver: str, arg: str) -> bool:
    calls = [c for c in walk_local(loop) if isinstance(c, ast.Call) and
             src(c.func) == receiver + ".merge_with"]
    if not (len(calls) == 1 and len(calls[0].args) == 1):
        return False
    a = calls[0].args[0]
    if isinstance(a, ast.Call) and src(a.func).split(".")[-1] == "deepcopy" \
            and len(a.args) == 1:
        a = a.args[0]
    return src(a) == arg


def d2_matrix(chk: Check) -> None:
    prog = chk.prog
    chk.rule("C18-D2b", "matrix: every right document is merged into every "
             "left document (full nested iteration, leaving only on error)",
             floor=2)
    fi = fn(prog, "merge_matrix")
    chk.analysed(fi)
    p_l, p_r = fi.params()[1], fi.params()[2]
    loops = _loops(fi)
    outer = [l for l in loops if src(l.iter) == p_l]
    inner = [l for l in loops if src(l.iter) == p_r]
    if outer and inner and any(a is outer[0] for a in ancestors(inner[0])) \
            and _merges(inner[0], src(outer[0].target),
                        src(inner[0].target) + ".data"):
        chk.ok("C18-D2b", fi, outer[0], "nested loops",
               "for lhs in lhs_docs: for rhs in rhs_docs: "
               "lhs.merge_with(rhs.data)")
    else:
        chk.fail("C18-D2b", fi, fi.node, "nested loops",
                 "matrix mode is not a full nested iteration merging each "
                 "right document into each left document")
        return
    leaves = _leaves_outside_handler(outer[0])
    if leaves:
        chk.fail("C18-D2b", fi, leaves[0], src(leaves[0]),
                 "the matrix iteration can be left without an error (some "
                 "pairs would be skipped)")
    else:
        chk.ok("C18-D2b", fi, outer[0], "no early leave",
               "break occurs only inside error handlers")


def d2_matrix_copies(chk: Check) -> None:
    """merge_with() stores right-hand nodes in the left document by
    reference (checked: _merge_dicts assigns the iterated right-hand value
    into the left hash).  A right document that is merged into several left
    documents must therefore be handed over as a copy each time, or the
    left documents share nodes and later merges write through to the right
    document itself."""
    prog = chk.prog
    chk.rule("C18-D2d", "matrix: a right document, merged into every left "
             "document, is handed to merge_with as a deep copy", floor=2)
    md = prog.func("Merger._merge_dicts")
    lhs, rhs = md.params()[1], md.params()[2]
    captures = False
    for loop in walk_local(md.node):
        if isinstance(loop, ast.For) and src(loop.iter).startswith(rhs + "."):
            names = {n.id for n in ast.walk(loop.target)
                     if isinstance(n, ast.Name)}
            for a in walk_local(loop):
                if isinstance(a, ast.Assign) and \
                        isinstance(a.targets[0], ast.Subscript) and \
                        src(a.targets[0].value) == lhs and \
                        isinstance(a.value, ast.Name) and a.value.id in names:
                    captures = True
    if captures:
        chk.ok("C18-D2d", md, md.node, "_merge_dicts stores right-hand nodes",
               "by reference: `{}[key] = <value iterated from {}>`".format(
                   lhs, rhs), False)
    else:
        raise AnalysisError("_merge_dicts no longer stores right-hand values "
                            "by reference; revisit C18-D2d")
    fi = fn(prog, "merge_matrix")
    p_r = fi.params()[2]
    calls = [c for c in walk_local(fi.node)
             if isinstance(c, ast.Call) and src(c.func).endswith(".merge_with")]
    if not calls:
        raise AnalysisError("merge_with call of merge_matrix not found")
    for c in calls:
        a = c.args[0] if c.args else None
        if isinstance(a, ast.Call) and \
                src(a.func).split(".")[-1] == "deepcopy":
            chk.ok("C18-D2d", fi, c, src(c)[:60], "a fresh copy per pair")
        else:
            chk.fail("C18-D2d", fi, c, src(c)[:60],
                     "the same right-hand document object is merged into "
                     "every left document: the left documents come to share "
                     "its nodes, and a node appended to by one merge is "
                     "appended to again by the next")


def simulate_across(fi: FuncInfo, L: int, R: int
                    ) -> Tuple[List[Tuple[str, int]], Optional[str]]:
    """Interpret merge_across's guards for stream lengths (L, R) with the
    partial evaluator; returns the action list and an error text."""
    p_l, p_r = fi.params()[1], fi.params()[2]
    pe = PEval()
    loops = [n for n in fi.node.body if isinstance(n, ast.For)]
    if len(loops) != 1:
        return [], "expected one top-level loop"
    loop = loops[0]
    pre = fi.node.body[:fi.node.body.index(loop)]
    env: Dict[str, Any] = {"len({})".format(p_l): Const(L),
                           "len({})".format(p_r): Const(R)}
    # run the straight-line prefix to bind the length locals
    res = pe.specialise(pre, env)
    for s in res:
        if isinstance(s, (ast.Assign, ast.AnnAssign)):
            t = s.targets[0] if isinstance(s, ast.Assign) else s.target
            v = pe.value(s.value, env)
            if isinstance(t, ast.Name) and v is not None:
                env[t.id] = v
    it = loop.iter
    if not (isinstance(it, ast.Call) and src(it.func) == "range"):
        return [], "loop is not over a range"
    bounds = [pe.value(a, env) for a in it.args]
    if any(not isinstance(b, Const) for b in bounds):
        return [], "loop bounds are not determined by the stream lengths"
    vals = [b.value for b in bounds]
    rng = range(*vals)
    actions: List[Tuple[str, int]] = []
    cur_l = L
    ivar = src(loop.target)
    for i in rng:
        e = dict(env)
        e[ivar] = Const(i)
        body = pe.specialise(loop.body, e)
        act = None
        for s in body:
            if isinstance(s, ast.If):
                return actions, "undecided guard `{}` at i={}".format(
                    src(s.test), i)
            if isinstance(s, ast.Break):
                act = "stop"
                break
            if isinstance(s, ast.Continue):
                break
            for c in walk_local(s):
                if isinstance(c, ast.Call) and \
                        src(c.func) == p_l + ".append" and c.args:
                    idx = _index_of(c.args[0], p_r, pe, e)
                    if idx is None or not 0 <= idx < R:
                        return actions, "append of out-of-range rhs[{}]" \
                            .format(idx)
                    actions.append(("append", idx))
                    cur_l += 1
                    act = "append"
                elif isinstance(c, ast.Call) and \
                        src(c.func).endswith(".merge_with") and \
                        isinstance(c.func, ast.Attribute):
                    li = _index_of(c.func.value, p_l, pe, e)
                    a0 = c.args[0] if c.args else None
                    ri = _index_of(a0.value if isinstance(
                        a0, ast.Attribute) else a0, p_r, pe, e)
                    if li is None or ri is None or not 0 <= li < cur_l \
                            or not 0 <= ri < R:
                        return actions, ("merge subscript out of range at "
                                         "i={} (lhs[{}], rhs[{}])".format(
                                             i, li, ri))
                    if li != ri:
                        return actions, "merges lhs[{}] with rhs[{}]".format(
                            li, ri)
                    actions.append(("merge", li))
                    act = "merge"
        if act == "stop":
            break
    return actions, None


def _index_of(e: Optional[ast.AST], base: str, pe: PEval, env: Dict
              ) -> Optional[int]:
    if isinstance(e, ast.Subscript) and src(e.value) == base:
        v = pe.value(e.slice, env)
        if isinstance(v, Const) and isinstance(v.value, int):
            return v.value
    return None


def d2_across(chk: Check) -> None:
    prog = chk.prog
    chk.rule("C18-D2c", "merge-across: for all stream lengths 0..4 x 0..4 "
             "the guards merge index i exactly for i < min(len) and append "
             "rhs[i] exactly for len(lhs) <= i < len(rhs), with every "
             "subscript in range", floor=25)
    fi = fn(prog, "merge_across")
    chk.analysed(fi)
    for L in range(0, 5):
        for R in range(0, 5):
            got, err = simulate_across(fi, L, R)
            want = [("merge", i) for i in range(min(L, R))] + \
                   [("append", i) for i in range(L, R)]
            cell = "len(lhs)={}, len(rhs)={}".format(L, R)
            if err:
                chk.fail("C18-D2c", fi, None, cell, err)
            elif got == want:
                chk.ok("C18-D2c", fi, None, cell,
                       "actions {}".format(got or "none"))
            else:
                chk.fail("C18-D2c", fi, None, cell,
                         "actions are {} but the mode defines {}".format(
                             got, want))


def d3_states(chk: Check) -> None:
    prog = chk.prog
    chk.rule("C18-D3", "every handler of the three drivers sets a non-zero "
             "state", floor=8)
    for name in ROUTES.values():
        fi = fn(prog, name)
        for h in walk_local(fi.node):
            if isinstance(h, ast.ExceptHandler):
                sets = [s for s in h.body if isinstance(s, ast.Assign) and
                        isinstance(s.value, ast.Constant) and
                        isinstance(s.value.value, int) and
                        s.value.value != 0]
                text = "except " + src(h.type)
                if sets:
                    chk.ok("C18-D3", fi, h, text, src(sets[0]))
                else:
                    chk.fail("C18-D3", fi, h, text,
                             "handler does not record a non-zero state")


def d6_lone_stream(chk: Check) -> None:
    """A lone input stream in condense-all mode is folded by the special
    step after the per-file loop, which runs when *no merge took place*.
    "A merge took place" is a counter; it must count calls of merge_docs
    and nothing else: an increment on a path that only loaded the first
    stream makes the lone stream look merged, and its documents are written
    out unfolded (the number of output documents then depends on whether a
    second input existed, not on the mode and the stream lengths)."""
    from sa.flow import Flow
    prog = chk.prog
    chk.rule("C18-D6", "yaml-merge main(): the counter consulted by the "
             "lone-stream condense step is incremented only after a call of "
             "merge_docs on the same path, once per call", floor=2)
    fi = fn(prog, "main")
    counter = None
    for t in walk_local(fi.node):
        if isinstance(t, ast.If) and "CONDENSE_ALL" in src(t.test):
            for c in ast.walk(t.test):
                if isinstance(c, ast.Compare) and len(c.ops) == 1 and \
                        isinstance(c.ops[0], ast.Eq) and \
                        src(c.comparators[0]) == "0" and \
                        isinstance(c.left, ast.Name) and \
                        "state" not in c.left.id:
                    counter = c.left.id
    if counter is None:
        raise AnalysisError("lone-stream condense test of yaml-merge main() "
                            "not found")
    bad: List[ast.AST] = []
    good: List[ast.AST] = []

    def transfer(stmt: ast.stmt, st, flow):
        if any(isinstance(c, ast.Call) and src(c.func) == "merge_docs"
               for c in ast.walk(stmt)):
            st = True
        if isinstance(stmt, ast.AugAssign) and src(stmt.target) == counter:
            (good if st else bad).append(stmt)
            st = False
        elif isinstance(stmt, ast.Assign) and \
                any(src(t) == counter for t in stmt.targets) and \
                src(stmt.value) != "0":
            bad.append(stmt)
        return [st]

    def branch(test: ast.AST, st, flow):
        return [st], [st]
    Flow(transfer, branch).run(fi.node.body, [False])
    for b in {id(x): x for x in bad}.values():
        chk.fail("C18-D6", fi, b, "`{}` without a merge".format(src(b)),
                 "`{}` is reachable on a path with no (uncounted) call of "
                 "merge_docs: a stream that was only loaded counts as "
                 "merged and the lone-stream condense step is skipped"
                 .format(src(b)))
    for g in {id(x): x for x in good}.values():
        if not any(g is b for b in bad):
            chk.ok("C18-D6", fi, g, "`{}` after merge_docs".format(src(g)),
                   "counts a merge that took place on this path")
    if not good and not bad:
        raise AnalysisError("no increment of the merge counter found")


def d7_documents_as_loaded(chk: Check) -> None:
    """The number of documents a stream contributes is the number the
    loader yields, and each is wrapped as it was loaded.

    a. Merger.__init__ stores the document it is given.  The drivers wrap
       *right-hand* documents in Mergers too, and merge_with() skips a null
       right-hand document: a constructor that builds a container for an
       empty document makes every empty right-hand document count as data.
    b. The STDIN arm of the multi-document loader adds its one fallback
       document ("deliberately empty input") exactly when the stream yielded
       nothing: the flag that suppresses it is set on every path to every
       yield of the loop."""
    from sa.flow import Flow
    prog = chk.prog
    chk.rule("C18-D7", "Merger.__init__ stores its document parameter "
             "unchanged; the multi-document loader's fallback document is "
             "governed by a flag set on every path to each yield of the "
             "stream loop", floor=2)
    init = prog.func("Merger.__init__")
    doc = init.params()[2]
    stores = [a for a in walk_local(init.node)
              if isinstance(a, (ast.Assign, ast.AnnAssign)) and
              any(src(t) == "self.data" for t in (
                  a.targets if isinstance(a, ast.Assign) else [a.target]))]
    if not stores:
        raise AnalysisError("Merger.__init__ does not store its document")
    for a in stores:
        text = "Merger.__init__: self.data = {}".format(src(a.value)[:40])
        if src(a.value) == doc:
            chk.ok("C18-D7", init, a, text, "the document as given")
        else:
            chk.fail("C18-D7", init, a, text,
                     "the Merger replaces the document it wraps: an empty "
                     "(null) document of a right-hand stream is no longer "
                     "skipped by merge_with and is merged in as data")
    ld = prog.func("Parsers.get_yaml_multidoc_data")
    fallbacks = [n for n in walk_local(ld.node) if isinstance(n, ast.If) and
                 isinstance(n.test, ast.UnaryOp) and
                 isinstance(n.test.op, ast.Not) and
                 isinstance(n.test.operand, ast.Name) and any(
                     isinstance(y, ast.Yield) for st in n.body
                     for y in ast.walk(st))]
    if len(fallbacks) != 1:
        raise AnalysisError("fallback document of the STDIN arm not found")
    flag = fallbacks[0].test.operand.id  # type: ignore
    blk = parent(fallbacks[0])
    body = getattr(blk, "body", [])
    loops = [st for st in body[:body.index(fallbacks[0])]
             if isinstance(st, ast.For)] if fallbacks[0] in body else []
    if len(loops) != 1:
        raise AnalysisError("stream loop before the fallback not found")
    bad = []

    def transfer(stmt: ast.stmt, st, flow):
        if isinstance(stmt, ast.Assign) and src(stmt.targets[0]) == flag:
            return [isinstance(stmt.value, ast.Constant) and
                    stmt.value.value is True]
        if any(isinstance(y, ast.Yield) for y in ast.walk(stmt)) and not st:
            bad.append(stmt)
        return [st]

    def branch(test: ast.AST, st, flow):
        return [st], [st]
    Flow(transfer, branch).run(loops[0].body, [False])
    text = "get_yaml_multidoc_data: `{}` before each yield".format(flag)
    if bad:
        chk.fail("C18-D7", ld, bad[0], text,
                 "a document can be yielded without `{}` being set: the "
                 "fallback document is then yielded in addition, and a "
                 "stream of n documents loads as n+1".format(flag))
    else:
        chk.ok("C18-D7", ld, loops[0], text, "set on every path")


def d8_only_null_is_skipped(chk: Check) -> None:
    """Each pairwise step of a multi-document merge is the ordinary merge.
    merge_with() skips a right-hand document only when it is *null* (an
    empty document holds nothing and has no kind).  An empty hash, list or
    set is a document of a kind: it still replaces under a RIGHT policy,
    creates a missing merge point, synchronises the tag and clashes with a
    target of another kind."""
    prog = chk.prog
    chk.rule("C18-D8", "merge_with returns without merging only for a null "
             "right-hand document (or, for an empty left document, after it "
             "has adopted a right-hand container)", floor=2)
    fi = prog.func("Merger.merge_with")
    rhs = fi.params()[1]
    n = 0
    for r in walk_local(fi.node):
        if not (isinstance(r, ast.Return) and r.value is None):
            continue
        n += 1
        # the tests of the enclosing `if`s (facts about self.data are
        # killed by the assignment that adopts the right-hand document)
        texts = []
        child: ast.AST = r
        for a in ancestors(r):
            if isinstance(a, ast.If):
                pol = any(child is x for x in a.body)
                texts.append(("" if pol else "not ") +
                             src(a.test).replace(" ", ""))
            if a is fi.node:
                break
            child = a
        texts = sorted(texts)
        text = "merge_with: bare return under {}".format(texts)
        null_only = texts == ["{}isNone".format(rhs)]
        adopted = len(texts) == 2 and "self.dataisNone" in texts and any(
            t.startswith("isinstance({},".format(rhs)) for t in texts)
        if null_only or adopted:
            chk.ok("C18-D8", fi, r, text, "null right-hand document"
                   if null_only else "empty left document adopted the "
                   "right-hand container")
        else:
            chk.fail("C18-D8", fi, r, text,
                     "the pairwise step is skipped for a right-hand document "
                     "that is not null (an empty container): replacing "
                     "policies, merge-point creation, tag synchronisation "
                     "and kind clashes no longer apply to it")
    if n < 2:
        raise AnalysisError("early returns of merge_with not found")


def d10_end_of_stream_is_not_a_document(chk: Check) -> None:
    """An empty document of a stream (`---` followed by `---`, or a
    trailing `---`) is loaded as None and counts as a document.  The end of
    the stream is therefore recognised by StopIteration only.  `next(it,
    None)` followed by "is it None?" takes the first empty document for the
    end: it and everything after it is dropped without a word, and the
    modes pair, multiply or fold fewer documents than the stream holds."""
    prog = chk.prog
    chk.rule("C18-D10", "the document iterator of the loaders is advanced "
             "with next(it) (StopIteration), never with a default that a "
             "document could equal", floor=1)
    n = 0
    for fi in prog.funcs_in("yamlpath/common/parsers.py"):
        for c in walk_local(fi.node):
            if not (isinstance(c, ast.Call) and src(c.func) == "next"):
                continue
            n += 1
            text = "{}: {}".format(fi.short, src(c)[:50])
            if len(c.args) == 1:
                chk.ok("C18-D10", fi, c, text, "ends by StopIteration")
            else:
                d = c.args[1]
                sentinel = isinstance(d, ast.Name) and any(
                    isinstance(a, ast.Assign) and
                    src(a.targets[0]) == d.id and
                    src(a.value) == "object()"
                    for a in ast.walk(fi.module.tree))
                if sentinel:
                    chk.ok("C18-D10", fi, c, text, "unique sentinel")
                else:
                    chk.fail("C18-D10", fi, c, text,
                             "the default `{}` is a value a document can "
                             "have (an empty document loads as None): the "
                             "stream is cut at its first empty document"
                             .format(src(d)))
    if n < 1:
        raise AnalysisError("next() calls in the loaders: {}".format(n))


def d11_first_document_decides_the_format(chk: Check) -> None:
    """With automatic output format the *first* result document decides
    whether the stream is written as YAML or as JSON lines.  Taking the
    verdict of whichever document the preparing loop saw last makes the
    form of the output depend on the tail of the stream: a trailing empty
    or flow-style document turns a block-style stream into JSON lines and
    drops what JSON cannot carry."""
    prog = chk.prog
    chk.rule("C18-D11", "write_output_document takes the JSON / YAML "
             "decision from docs[0].prepare_for_dump(...)", floor=1)
    fi = prog.func("yaml_merge.write_output_document")
    docs = fi.params()[3]
    decisions = [a for a in walk_local(fi.node) if isinstance(a, ast.Assign)
                 and "OutputDocTypes.JSON" in src(a.value)]
    if not decisions:
        raise AnalysisError("format decision of write_output_document not "
                            "found")
    for a in decisions:
        text = "write_output_document: {}".format(src(a)[:60])
        if "{}[0].prepare_for_dump".format(docs) in src(a.value):
            chk.ok("C18-D11", fi, a, text, "the first document")
        else:
            chk.fail("C18-D11", fi, a, text,
                     "the decision is not taken from the first document "
                     "(a name assigned in the preparing loop holds the "
                     "last document's verdict)")


def d12_formatless_documents_default_to_flow(chk: Check) -> None:
    """With automatic output format a document that carries no format
    attribute -- a scalar or an empty document -- is taken to be flow
    (JSON) form, which sends it through the protective JSON round trip.
    Folding the default away (`hasattr(...) and flow_style()`) makes such
    documents YAML: a text scalar holding a `---` line is then written at
    column 0 and comes back as extra documents."""
    prog = chk.prog
    chk.rule("C18-D12", "in Merger.prepare_for_dump the flow flag of a "
             "document without a format attribute is True (initialised "
             "True before the hasattr test)", floor=1)
    fi = prog.func("Merger.prepare_for_dump")
    tests = [t for t in walk_local(fi.node) if isinstance(t, ast.If) and
             isinstance(t.test, ast.Call) and src(t.test.func) == "hasattr"
             and any(isinstance(a, ast.Assign) and "flow_style" in src(a.value)
                     for a in t.body)]
    ok = None
    for t in tests:
        name = src([a for a in t.body if isinstance(a, ast.Assign)][0]
                   .targets[0])
        blk = parent(t)
        for fld in ("body", "orelse"):
            seq = getattr(blk, fld, None)
            if isinstance(seq, list) and t in seq and seq.index(t) > 0:
                prev = seq[seq.index(t) - 1]
                if isinstance(prev, ast.Assign) and \
                        src(prev.targets[0]) == name and \
                        isinstance(prev.value, ast.Constant) and \
                        prev.value.value is True:
                    ok = t
    if ok is not None:
        chk.ok("C18-D12", fi, ok, "prepare_for_dump: default flow flag",
               "True unless the document says otherwise")
    else:
        chk.fail("C18-D12", fi, fi.node, "prepare_for_dump: default flow "
                 "flag",
                 "a document without a format attribute (scalar, empty) is "
                 "no longer treated as flow form: text scalars skip the "
                 "JSON round trip and a `---` / `...` line inside one "
                 "splits the output stream into more documents")


def d13_merger_keeps_the_document_it_is_given(chk: Check) -> None:
    """The `Merger.data` setter stores what it is given (comments aside).
    An empty string is a document -- `--- ""` -- not "nothing": turning it
    into None makes merge_with() skip it as an empty right-hand document,
    so condense-all of [a], "", b yields [a, b] and the other modes lose
    the document likewise."""
    prog = chk.prog
    chk.rule("C18-D13", "the data setter of Merger stores its parameter "
             "without re-binding it", floor=1)
    ci = prog.class_by_name("Merger")
    st = prog.find_setter(ci, "data")
    if st is None:
        raise AnalysisError("Merger.data setter not found")
    value = st.params()[1]
    rebound = [x for x in walk_local(st.node) if isinstance(x, ast.Name) and
               x.id == value and isinstance(x.ctx, ast.Store)]
    stores = [a for a in walk_local(st.node) if isinstance(a, ast.Assign) and
              src(a.targets[0]).startswith("self._")]
    if rebound:
        chk.fail("C18-D13", st, rebound[0], "Merger.data setter",
                 "`{}` is replaced before it is stored: a document of some "
                 "value (the empty string) becomes another (null) and is "
                 "then skipped as an empty right-hand document".format(value))
    elif stores and all(src(a.value) == value for a in stores):
        chk.ok("C18-D13", st, stores[0], "Merger.data setter",
               "stored as given")
    else:
        chk.fail("C18-D13", st, st.node, "Merger.data setter",
                 "the parameter is not what is stored")


_MUTATING = ("add", "append", "extend", "update", "insert", "setdefault",
             "pop", "remove", "discard", "clear", "popitem")


def d14_no_memory_between_documents(chk: Check) -> None:
    """One configuration object serves every Merger of a run and prepare()
    is called once per right-hand document.  Whatever prepare() and its
    rule collector write on `self` therefore outlives the document it was
    computed for: a verdict remembered about one document (a rule path that
    matched nothing there) silently decides the next one.  Every attribute
    they write must be re-bound by prepare() itself, unconditionally,
    before the collector runs."""
    prog = chk.prog
    chk.rule("C18-D14", "every attribute of the configuration object that "
             "prepare() or its rule collector writes is re-bound by "
             "prepare() before the collector runs (no verdict about one "
             "document is remembered for the next)", floor=4)
    for cls in ("MergerConfig", "DifferConfig"):
        prep = prog.func(cls + ".prepare")
        coll = prog.func(cls + "._prepare_user_rules")
        resets = {src(n.targets[0]) for n in prep.node.body
                  if isinstance(n, ast.Assign)}
        for fi in (prep, coll):
            chk.analysed(fi)
            written = {}
            for n in walk_local(fi.node):
                tgt = None
                if isinstance(n, (ast.Assign, ast.AugAssign, ast.AnnAssign)):
                    for t in (n.targets if isinstance(n, ast.Assign)
                              else [n.target]):
                        base = t
                        while isinstance(base, ast.Subscript):
                            base = base.value
                        if isinstance(base, ast.Attribute) and \
                                src(base.value) == "self":
                            tgt = src(base)
                            if fi is prep and base is t and \
                                    n in prep.node.body:
                                tgt = None   # the reset itself
                elif isinstance(n, ast.Call) and \
                        isinstance(n.func, ast.Attribute) and \
                        n.func.attr in _MUTATING and \
                        isinstance(n.func.value, ast.Attribute) and \
                        src(n.func.value.value) == "self":
                    tgt = src(n.func.value)
                if tgt:
                    written.setdefault(tgt, n)
            bad = {a: n for a, n in written.items() if a not in resets}
            text = "{}: attributes written {}".format(
                fi.short, sorted(written) or "none")
            if bad:
                a = sorted(bad)[0]
                chk.fail("C18-D14", fi, bad[a], text,
                         "`{}` is written while a document is prepared and "
                         "never re-bound by prepare(): what was noted about "
                         "one document of the stream is still there when "
                         "the next one is prepared (a rule skipped, a match "
                         "kept), so a pairwise step is no longer the "
                         "configured merge".format(a))
            else:
                chk.ok("C18-D14", fi, fi.node, text,
                       "nothing outlives the document")


def run(chk: Check) -> None:
    d1_routing(chk)
    d2_condense(chk)
    d2_matrix(chk)
    d2_matrix_copies(chk)
    d2_across(chk)
    d3_states(chk)
    d6_lone_stream(chk)
    d7_documents_as_loaded(chk)
    d8_only_null_is_skipped(chk)
    d10_end_of_stream_is_not_a_document(chk)
    d11_first_document_decides_the_format(chk)
    d12_formatless_documents_default_to_flow(chk)
    d13_merger_keeps_the_document_it_is_given(chk)
    # a Merger folds many right-hand documents into one left document:
    # conflict detection must look at the accumulated document each time
    from rules.c10 import d4_fresh_tables
    d4_fresh_tables(chk, "C18-D4")
    # one configuration object serves every pairwise step of a multi-
    # document merge: its per-document tables must be rebuilt each time
    from rules.c05 import d2d_rules_per_document
    d2d_rules_per_document(chk, "C18-D5")
    d14_no_memory_between_documents(chk)
    from rules.shared import config_parser_read_only_rule
    config_parser_read_only_rule(chk, "C18-D9", 20)
