"""C15 -- evaluating any path on any document fails only with YAML Path errors.

Decided clauses (DESIGN.md section 4, C15):
  D1  explicit raises that can leave get_nodes()/exists() are of the
      YAMLPathException family (NotImplementedError only behind an
      exhaustive enum ladder); foreign raises must be converted on the way;
  D2  partial operations on document- or user-derived operands are
      discharged: two-sided index bounds, presence tests, handlers,
      interprocedural entry invariants, a small table of shape invariants;
      ordering comparisons, ``in`` and dict-key uses are type-safe;
  D3  (subsumed by D1) ValueError from keyword-parameter parsing is
      converted before it leaves the evaluator.
"""
from __future__ import annotations

import ast
from typing import Dict, List, Optional, Set, Tuple

from sa import partial
from sa.escape import Escape, enum_chain_exhaustive
from sa.guards import Fact, facts_at, linear, names_in, root_name
from sa.interproc import (aliases, call_sites, nonneg, prove_at_callers,
                          subst)
from sa.kinds import (BOOL, CONT, FLOAT, INT, STR, UNKNOWN, DocTaint, Kinds,
                      hasattr_fact, isinstance_types, not_none_fact)
from sa.model import (AnalysisError, FuncInfo, Program, ancestors, closure,
                      enclosing_stmt, parent, resolve_call, src, walk_local)
from sa.report import Check
from sa.stackstate import find_stacks

META = {
    "explanation": (
        "Static decision of C15 over the closure of Processor.get_nodes / "
        "exists (segment handlers, collectors, keyword searches, typed "
        "comparison, path parsing): (D1) exception-escape fixpoint over the "
        "call graph -- every explicit raise that can leave the roots is in "
        "the YAMLPathException family, NotImplementedError only behind an "
        "exhaustive enum ladder; (D2) every subscript / pop / int() / "
        "re.compile / literal_eval / .index site is discharged by a "
        "dominating two-sided bound, presence test, handler, loop header, "
        "an entry invariant proven at every call site, or a listed shape "
        "invariant; ordering comparisons need same-kind operands, `in` "
        "needs a container right operand, dict-key uses need hashable "
        "keys.  Nothing is executed."),
    "declined": [
        "RecursionError on very deep documents (traversal recurses on "
        "document depth; no static bound)",
        "AttributeError/TypeError inside ruamel.yaml itself",
        "collector operands that select non-scalars (excluded by the "
        "property's quantifier)",
    ],
    "assumptions": [
        "library model of sa/partial.py",
        "ConsolePrinter (debug logging sink) is outside the closure",
        "value-wrapping and node-creation helpers (Nodes.wrap_type, "
        "make_new_node, build_next_node, append_list_element) take the "
        "caller's default value, not document/path data; they belong to "
        "C03/C09",
    ],
    "trusted_base": partial.LIBRARY_MODEL,
}

ROOTS = ["Processor.get_nodes", "Processor.exists"]
STOP_PREFIX = ("ConsolePrinter.",)
STOP = {"Nodes.wrap_type", "Nodes.make_new_node", "Nodes.make_float_node",
        "Nodes.make_date_node", "Nodes.make_timestamp_node",
        "Nodes.clone_node", "Nodes.get_timestamp_with_tzinfo",
        "Nodes.apply_yaml_tag", "Nodes.build_next_node",
        "Nodes.append_list_element"}

# functions whose partial operations C14 decides (parser closure)
C14_OWNED_PREFIX = ("YAMLPath.", "SearchTerms.", "CollectorTerms.",
                    "PathSearch", "PathSeparators.", "PathSegmentTypes.",
                    "CollectorOperators.")


def c15_closure(prog: Program) -> List[FuncInfo]:
    roots = [prog.func(r) for r in ROOTS]
    cl = closure(prog, roots)
    out = []
    for f in cl:
        if f.short.startswith(STOP_PREFIX) or f.short in STOP:
            continue
        out.append(f)
    return sorted(out, key=lambda f: f.qual)


# ---------------------------------------------------------------- D1 ------
def d1_raises(chk: Check, cl: List[FuncInfo]) -> None:
    prog = chk.prog
    chk.rule("C15-D1",
             "explicit raises that can leave get_nodes()/exists() are "
             "YAMLPathException-family (foreign classes converted on the "
             "way; NotImplementedError only behind an exhaustive ladder)",
             floor=40)
    esc = Escape(prog)
    esc.compute(cl)
    leaving: Set[Tuple[str, str]] = set()
    for r in ROOTS:
        leaving |= esc.escaping(prog.func(r))
    # every local raise is an instance; those that leave are obligations
    for fi in cl:
        chk.analysed(fi)
        for cls, node in esc.local_raises(fi):
            key = "{}:{}".format(fi.short, node.lineno)
            short = cls.split(".")[-1]
            construct = "raise {}".format(short)
            if prog.is_subclass(cls, "YAMLPathException"):
                chk.ok("C15-D1", fi, node, construct,
                       "class is in the YAMLPathException family")
                continue
            if (cls, key) not in leaving:
                chk.ok("C15-D1", fi, node, construct,
                       "foreign class, but caught/converted by a handler on "
                       "every call path from the roots")
                continue
            if short == "NotImplementedError":
                why = enum_chain_exhaustive(prog, node)
                if why:
                    chk.ok("C15-D1", fi, node, construct,
                           "unreachable: " + why)
                    continue
            chk.fail("C15-D1", fi, node, construct,
                     "{} raised here can leave Processor.get_nodes()/"
                     "exists(): no handler on the call path converts it to "
                     "a YAMLPathException".format(short))


TOTAL_CALLS = ("str", "repr", "format", "type", "len", "join")


def d1c_total_handlers(chk: Check, cl: List[FuncInfo]) -> None:
    """A handler that converts a foreign exception runs outside any try of
    its own: whatever it evaluates to build the message must be total.
    Allowed: names, constants, attribute reads as message arguments,
    str()/repr()/format()/f-strings/len()/join, the library exception's
    constructor.  Not allowed: subscripts or slices with computed bounds,
    arithmetic on attributes of the caught exception (``ex.pos`` is None
    for some re.error), calls of anything else."""
    prog = chk.prog
    chk.rule("C15-D1c", "handlers that convert a foreign exception into a "
             "YAMLPathException evaluate only total expressions", floor=5)
    for fi in cl:
        for h in walk_local(fi.node):
            if not isinstance(h, ast.ExceptHandler):
                continue
            raises = [r for r in h.body if isinstance(r, ast.Raise)
                      and r.exc is not None]
            if not raises:
                continue
            exname = h.name
            problems: List[str] = []
            for st in h.body:
                for n in ast.walk(st):
                    if isinstance(n, ast.Subscript):
                        sl = n.slice
                        parts = [sl.lower, sl.upper, sl.step] \
                            if isinstance(sl, ast.Slice) else [sl]
                        if any(p is not None and
                               not isinstance(p, ast.Constant)
                               for p in parts):
                            problems.append("`{}` (computed subscript)"
                                            .format(src(n)[:40]))
                    elif isinstance(n, ast.BinOp) and not isinstance(
                            n.op, ast.Mod) and any(
                                isinstance(x, ast.Attribute) and
                                isinstance(x.value, ast.Name) and
                                x.value.id == exname
                                for x in (n.left, n.right)):
                        problems.append("`{}` (arithmetic on an attribute "
                                        "of the caught exception)".format(
                                            src(n)[:40]))
                    elif isinstance(n, ast.Call):
                        f = n.func
                        nm = f.attr if isinstance(f, ast.Attribute) else (
                            f.id if isinstance(f, ast.Name) else "?")
                        if nm in TOTAL_CALLS or nm.endswith("Exception") or \
                                nm in ("debug", "warning", "error"):
                            continue
                        problems.append("call `{}`".format(src(n)[:40]))
            text = "except {} in {}".format(
                src(h.type) if h.type is not None else "<all>", fi.short)
            if problems:
                chk.fail("C15-D1c", fi, h, text,
                         "the converting handler evaluates {}: a failure "
                         "there leaves the query as a foreign exception"
                         .format("; ".join(sorted(set(problems))[:3])))
            else:
                chk.ok("C15-D1c", fi, h, text, "message built from total "
                       "expressions only")


# ---------------------------------------------------------------- D2 ------
def _local_proof_factory(prog: Program, site: partial.Site, need_lower: bool):
    def proof(caller: FuncInfo, call: ast.Call,
              exprs: List[ast.AST]) -> Optional[str]:
        cont, idx = exprs
        facts = partial._xfacts(call, caller)
        fake = partial.Site(site.kind, call, caller, site.exc, cont, idx)
        return partial.seq_bound_proof(fake, facts, cont, idx, prog,
                                       None, caller, need_lower)
    return proof


def _interproc(prog: Program, site: partial.Site) -> Optional[str]:
    """The site's container/index are expressions over the function's own
    parameters: prove the bound at every call site."""
    if site.kind != "subscript" or site.container is None or \
            site.index is None:
        return None
    fi = site.fi
    amap = aliases(fi)
    cont, idx = subst(site.container, amap), subst(site.index, amap)
    if linear(idx) is None:
        return None
    # lower bound locally (non-negative by construction), upper at callers
    lower_local = nonneg(prog).expr(idx, fi) or \
        (isinstance(idx, ast.Constant) and isinstance(idx.value, int)
         and idx.value >= 0)
    if not lower_local:
        # ... or by a guard in front of the site itself (`if i > 0:` before
        # `x[i - 1]` in a helper that received x and i)
        lin = linear(idx)
        lower_local = lin is not None and partial.ge0(
            partial._xfacts(site.node, fi), lin) is not None
    why = prove_at_callers(prog, fi, [cont, idx],
                           _local_proof_factory(prog, site,
                                                not lower_local))
    if why:
        return "entry invariant len({}) > {}: {}".format(
            src(cont), src(idx), why)
    return None


def _lin_to_ast(lin: Dict[str, int]) -> Optional[ast.AST]:
    """AST of a linear form with non-negative coefficients."""
    terms: List[ast.AST] = []
    for k, v in sorted(lin.items()):
        if k == "" or v == 0:
            continue
        if v < 0:
            return None
        atom = ast.parse(k, mode="eval").body
        for _ in range(v):
            terms.append(atom)
    c = lin.get("", 0)
    if c < 0:
        return None
    if c or not terms:
        terms.append(ast.Constant(value=c))
    out = terms[0]
    for t in terms[1:]:
        out = ast.BinOp(left=out, op=ast.Add(), right=t)
    return ast.fix_missing_locations(out)


def _entry_assisted(prog: Program, site: partial.Site) -> Optional[str]:
    """x[i + 1] where the entry invariant gives len(x) > i and a local
    ``i + 1 != len(x)`` fact excludes equality."""
    fi = site.fi
    amap = aliases(fi)
    cont, idx = subst(site.container, amap), subst(site.index, amap)
    lin = linear(idx)
    if lin is None or set(lin) <= {""}:
        return None
    wl = dict(lin)
    wl[""] = wl.get("", 0) - 1
    weaker = _lin_to_ast(wl)
    if weaker is None:
        return None
    fake = partial.Site("subscript", site.node, fi, site.exc, cont, weaker)
    why = _interproc(prog, fake)
    if not why:
        return None
    form = {"len(" + src(cont) + ")": 1}
    for k, v in lin.items():
        form[k] = form.get(k, 0) - v
    local = partial.discharge(site, prog, extra=[form])
    if local:
        return "{} with {}".format(local, why)
    return None


def _unescaped_len_invariant(prog: Program) -> Optional[str]:
    """INV-UNESC-LEN: the unescaped parse has at least as many segments as
    the escaped one.  Established structurally: ``strip_escapes`` is read at
    exactly one place in the parser, an ``if strip_escapes: continue`` that
    only skips the recording of a backslash character."""
    fi = prog.func("YAMLPath._parse_path")
    uses = [n for n in walk_local(fi.node)
            if isinstance(n, ast.Name) and n.id == "strip_escapes"
            and isinstance(n.ctx, ast.Load)]
    if len(uses) != 1:
        return None
    p = parent(uses[0])
    if not (isinstance(p, ast.If) and p.test is uses[0] and len(p.body) == 1
            and isinstance(p.body[0], ast.Continue) and not p.orelse):
        return None
    outer = parent(p)
    t = outer.test if isinstance(outer, ast.If) else None
    if not (isinstance(t, ast.Compare) and len(t.ops) == 1 and
            isinstance(t.ops[0], ast.Eq) and isinstance(t.left, ast.Name) and
            isinstance(t.comparators[0], ast.Constant) and
            t.comparators[0].value == "\\"):
        return None
    esc = prog.func("YAMLPath.escaped")
    une = prog.func("YAMLPath.unescaped")
    if "_parse_path(True)" not in src(esc.node) or \
            "_parse_path(False)" not in src(une.node):
        return None
    return ("INV-UNESC-LEN: strip_escapes is read once, in `if "
            "strip_escapes: continue` of the backslash branch; the two "
            "parses differ only by kept backslashes")


def _anc_pair_invariant(prog: Program, cl: List[FuncInfo]) -> Optional[str]:
    """INV-ANC-PAIR: every list that extends an ancestry is a list of
    2-tuples."""
    count = 0
    for fi in cl:
        for n in walk_local(fi.node):
            if isinstance(n, ast.BinOp) and isinstance(n.op, ast.Add) and \
                    isinstance(n.right, ast.List) and \
                    "ancestry" in src(n.left):
                for e in n.right.elts:
                    if not (isinstance(e, ast.Tuple) and len(e.elts) == 2):
                        return None
                    count += 1
    if count < 20:
        return None
    return "INV-ANC-PAIR: all {} ancestry extensions append 2-tuples".format(
        count)


def _int_attrs_only_for_index(prog: Program) -> Optional[str]:
    """INV-ANCHOR-STR: the parser stores a non-str attribute (an int) only
    for INDEX segments."""
    fi = prog.func("YAMLPath._parse_path")
    kinds = Kinds(prog, fi)
    n_app = 0
    rets = {src(n.value) for n in walk_local(fi.node)
            if isinstance(n, ast.Return) and isinstance(n.value, ast.Name)}
    if len(rets) != 1:
        return None
    segvar = rets.pop()
    for n in walk_local(fi.node):
        if isinstance(n, ast.Call) and isinstance(n.func, ast.Attribute) and \
                n.func.attr == "append" and \
                src(n.func.value) == segvar and n.args:
            arg = n.args[0]
            if isinstance(arg, ast.Tuple) and len(arg.elts) == 2:
                n_app += 1
                k = kinds.kind(arg.elts[1])
                if k == INT:
                    ok = any(f.kind == "cond" and f.pol and
                             src(f.expr).endswith("PathSegmentTypes.INDEX")
                             for f in facts_at(n))
                    if not ok:
                        return None
    if n_app < 4:
        return None
    return ("INV-ANCHOR-STR: the parser appends an int attribute only "
            "under `segment_type is PathSegmentTypes.INDEX`")


def _climb_invariant(prog: Program, site: partial.Site) -> Optional[str]:
    """INV-CLIMB: ``for _ in range(N): stack.pop()`` preceded by an early
    exit ``if N > len(stack): raise``; a length mirror is decremented once
    per pop, so ``stack[-1]`` under ``mirror > 0`` is safe afterwards."""
    fi = site.fi
    cont = site.container
    if cont is None or not isinstance(cont, ast.Name):
        return None
    stack = cont.id
    # the unique pop of this stack inside a for-range loop
    pops = [n for n in walk_local(fi.node)
            if isinstance(n, ast.Call) and isinstance(n.func, ast.Attribute)
            and n.func.attr == "pop" and not n.args
            and src(n.func.value) == stack]
    if len(pops) != 1:
        return None
    pop = pops[0]
    loop = None
    for anc in ancestors(pop):
        if isinstance(anc, (ast.For, ast.While)):
            loop = anc
            break
        if isinstance(anc, ast.If):
            return None
    if not (isinstance(loop, ast.For) and isinstance(loop.iter, ast.Call)
            and src(loop.iter.func) == "range" and len(loop.iter.args) == 1):
        return None
    if enclosing_stmt(pop) not in loop.body:
        return None
    count = src(loop.iter.args[0])
    # mirror: local assigned len(stack) once, decremented in the loop body
    mirror = None
    for n in walk_local(fi.node):
        if isinstance(n, (ast.Assign, ast.AnnAssign)):
            t = n.targets[0] if isinstance(n, ast.Assign) else n.target
            if isinstance(t, ast.Name) and n.value is not None and \
                    src(n.value) == "len({})".format(stack):
                mirror = t.id
    if mirror is None:
        return None
    decs = [s for s in loop.body if isinstance(s, ast.AugAssign)
            and isinstance(s.op, ast.Sub) and src(s.target) == mirror
            and src(s.value) == "1"]
    others = [n for n in walk_local(fi.node)
              if isinstance(n, ast.AugAssign) and src(n.target) == mirror
              and n not in decs]
    if len(decs) != 1 or others:
        return None
    # bound: names equal to the mirror's initial value
    bounds = {mirror, "len({})".format(stack)}
    for n in walk_local(fi.node):
        if isinstance(n, ast.Assign) and len(n.targets) == 1 and \
                isinstance(n.targets[0], ast.Name) and \
                src(n.value) in bounds and n.lineno < loop.lineno:
            bounds.add(n.targets[0].id)
    guard = None
    for f in facts_at(loop):
        e = f.expr
        if f.kind == "cond" and not f.pol and isinstance(e, ast.Compare) \
                and len(e.ops) == 1 and isinstance(e.ops[0], ast.Gt) and \
                src(e.left) == count and src(e.comparators[0]) in bounds:
            guard = f
    if guard is None:
        return None
    # the stack must not be touched between the mirror's definition and the
    # loop (checked: the only mutation of the stack is the pop)
    for n in walk_local(fi.node):
        if isinstance(n, ast.Call) and isinstance(n.func, ast.Attribute) and \
                src(n.func.value) == stack and \
                n.func.attr in partial.MUTATORS and n is not pop:
            return None
    if site.kind == "pop":
        return ("INV-CLIMB: loop runs `{}` times, bounded by `{}`; one pop "
                "per iteration".format(count, guard))
    # top read after the loop under mirror > 0
    for f in facts_at(site.node):
        e = f.expr
        if f.kind == "cond" and f.pol and isinstance(e, ast.Compare) and \
                len(e.ops) == 1 and isinstance(e.ops[0], ast.Gt) and \
                src(e.left) == mirror and src(e.comparators[0]) == "0":
            return ("INV-CLIMB: `{}` mirrors len({}) (decremented once per "
                    "pop) and is > 0 here".format(mirror, stack))
    return None


def _pair_subscript(prog: Program, site: partial.Site, inv_anc: Optional[str]
                    ) -> Optional[str]:
    """x[i][0|1] where x[i] is an ancestry entry / a segment / a merge
    entry (2-tuples): discharged when the inner subscript is."""
    node = site.node
    if not (isinstance(node, ast.Subscript) and
            isinstance(node.slice, ast.Constant) and
            node.slice.value in (0, 1)):
        return None
    inner = node.value
    text = src(inner)
    if isinstance(inner, ast.Subscript) and "ancestry" in src(inner.value) \
            and inv_anc:
        return inv_anc + " (inner subscript checked separately)"
    if isinstance(inner, ast.Subscript) and isinstance(
            subst(inner.value, aliases(site.fi)), ast.Attribute) and \
            subst(inner.value, aliases(site.fi)).attr in (  # type: ignore
                "escaped", "unescaped"):
        return ("path segments are (type, attributes) pairs built by the "
                "parser (C14/C08); inner subscript checked separately")
    if isinstance(inner, ast.Name):
        # loop variable over <x>.merge (ruamel merge entries are pairs)
        for f in facts_at(node):
            if f.kind == "loop" and src(getattr(f.expr, "target", None)) \
                    == text and src(getattr(f.expr, "iter", None)
                                    ).endswith(".merge"):
                return "ruamel merge entries are (index, node) pairs"
    if text.startswith("data.ca.items["):
        return "ruamel comment tokens are 4-element lists"
    return None


def d2_partial(chk: Check, cl: List[FuncInfo]) -> None:
    prog = chk.prog
    chk.rule("C15-D2a",
             "every partial operation (subscript, pop, int(), re.compile, "
             "literal_eval, .index) on the evaluation path is discharged",
             floor=45)
    inv_unesc = _unescaped_len_invariant(prog)
    inv_anc = _anc_pair_invariant(prog, cl)
    inv_attr = _int_attrs_only_for_index(prog)
    stack_vars: Dict[str, Set[str]] = {}
    for fi in cl:
        if fi.short in ("YAMLPath._parse_path",
                        "SearchKeywordTerms.parameters"):
            stack_vars[fi.qual] = {s for s, _ in find_stacks(fi)}
    for fi in cl:
        if fi.short.startswith(C14_OWNED_PREFIX):
            continue   # decided by C14-D2b
        for site in partial.find_sites(fi):
            if isinstance(site.container, ast.Name) and \
                    site.container.id in stack_vars.get(fi.qual, set()):
                continue   # C14-D1
            why = partial.discharge(site, prog)
            if why is None:
                why = _special(chk, site, inv_unesc, inv_anc, inv_attr)
            text = "{} {}".format(site.kind, site.text)
            if why:
                chk.ok("C15-D2a", fi, site.node, text, why)
            else:
                chk.fail(
                    "C15-D2a", fi, site.node, text,
                    "`{}` may raise {} for some document/path: no "
                    "two-sided bound, presence test, handler or entry "
                    "invariant discharges it".format(
                        site.text, "/".join(site.exc)),
                    {"facts": [repr(f) for f in
                               partial._xfacts(site.node, fi)][:10]})


def _special(chk: Check, site: partial.Site, inv_unesc: Optional[str],
             inv_anc: Optional[str], inv_attr: Optional[str]
             ) -> Optional[str]:
    prog = chk.prog
    fi = site.fi
    if site.kind == "subscript":
        why = _pair_subscript(prog, site, inv_anc)
        if why:
            return why
        # yaml_path.unescaped[i] whenever yaml_path.escaped[i] is provable
        amap = aliases(fi)
        cont = subst(site.container, amap)
        if isinstance(cont, ast.Attribute) and cont.attr == "unescaped" \
                and inv_unesc:
            twin = ast.Attribute(value=cont.value, attr="escaped",
                                 ctx=ast.Load())
            fake = partial.Site("subscript", site.node, fi, site.exc,
                                twin, site.index)
            why = partial.discharge(fake, prog) or _interproc(prog, fake)
            if why:
                return inv_unesc + "; escaped twin: " + why
        why = _interproc(prog, site)
        if why:
            return why
        why = _entry_assisted(prog, site)
        if why:
            return why
        # d[str(k)] under `k in d` when k is a str attribute (anchor names)
        if isinstance(site.index, ast.Call) and \
                src(site.index.func) == "str" and site.index.args and \
                inv_attr:
            fake = partial.Site("subscript", site.node, fi, site.exc,
                                site.container, site.index.args[0])
            p = partial.map_key_proof(fake, facts_at(site.node))
            if p:
                return p + "; " + inv_attr
        why = _climb_invariant(prog, site)
        if why:
            return why
        why = _scope_excluded(site)
        if why:
            return why
        # parameters-list invariants: container is a parameter; prove
        # non-emptiness at callers
        if isinstance(site.container, ast.Name) and \
                site.container.id in fi.params():
            why = prove_at_callers(
                prog, fi, [site.container, site.index],
                _local_proof_factory(prog, site, True))
            if why:
                return "entry invariant: " + why
        return None
    if site.kind == "pop":
        return _climb_invariant(prog, site)
    if site.kind == "del":
        return _scope_excluded(site)
    return None


def _scope_excluded(site: partial.Site) -> Optional[str]:
    """C15 limits collectors to operands that select scalars: code that
    runs only for hash operands of a collector subtraction is out of scope.
    Recognised structurally: the site iterates a local list whose only
    ``append`` is dominated by ``<x>.wraps_a(dict)``."""
    fi = site.fi
    if "_collector_" not in fi.short:
        return None
    for f in facts_at(site.node):
        if f.kind != "loop":
            continue
        it = getattr(f.expr, "iter", None)
        if not isinstance(it, ast.Name):
            continue
        appends = [n for n in walk_local(fi.node)
                   if isinstance(n, ast.Call) and
                   isinstance(n.func, ast.Attribute) and
                   n.func.attr == "append" and
                   src(n.func.value) == it.id]
        if not appends:
            continue
        if all(any(ff.kind == "cond" and ff.pol and
                   src(ff.expr).endswith(".wraps_a(dict)")
                   for ff in facts_at(a)) for a in appends):
            return ("out of the property's scope: runs only for collector "
                    "operands that wrap a hash (`{}` is filled only under "
                    "wraps_a(dict))".format(it.id))
    return None


# ------------------------------------------------------- D2 type safety ---
def _data_params(fi: FuncInfo) -> Set[str]:
    out: Set[str] = set()
    a = fi.node.args
    for arg in a.posonlyargs + a.args:
        if arg.annotation is not None and src(arg.annotation) == "Any" and \
                arg.arg not in ("parent", "parentref", "value"):
            out.add(arg.arg)
    return out


NUMERIC = {"int", "float", "bool"}


def d2_types(chk: Check, cl: List[FuncInfo]) -> None:
    prog = chk.prog
    chk.rule("C15-D2b", "ordering comparisons have same-kind operands "
             "(int/int, str/str, or isinstance-guarded numerics)", floor=30)
    chk.rule("C15-D2c", "the right operand of `in` is a container or text "
             "(never possibly-None document data)", floor=30)
    chk.rule("C15-D2d", "document values used as keys of a local dict are "
             "known hashable", floor=6)
    for fi in cl:
        if fi.short.startswith(C14_OWNED_PREFIX):
            continue
        kinds = Kinds(prog, fi)
        taint = DocTaint(fi, _data_params(fi))
        for n in walk_local(fi.node):
            if isinstance(n, ast.Compare):
                _check_compare(chk, fi, n, kinds, taint)
            elif isinstance(n, ast.Subscript) and \
                    isinstance(n.ctx, (ast.Store, ast.Load)) and \
                    not partial.in_annotation(n):
                _check_hash(chk, fi, n, n.value, n.slice, kinds, taint)


def _numeric_guarded(facts: List[Fact], e: ast.AST) -> bool:
    ts = isinstance_types(facts, src(e))
    return bool(ts) and ts <= NUMERIC


def _check_compare(chk: Check, fi: FuncInfo, n: ast.Compare, kinds: Kinds,
                   taint: DocTaint) -> None:
    left = n.left
    facts: Optional[List[Fact]] = None
    for op, right in zip(n.ops, n.comparators):
        if isinstance(op, (ast.Lt, ast.LtE, ast.Gt, ast.GtE)):
            lk, rk = kinds.kind(left), kinds.kind(right)
            text = "{} {} {}".format(src(left), _opname(op), src(right))
            if lk == rk and lk in (INT, STR, FLOAT):
                chk.ok("C15-D2b", fi, n, text,
                       "both operands are {}".format(lk), False)
            elif {lk, rk} <= {INT, FLOAT, BOOL}:
                chk.ok("C15-D2b", fi, n, text, "numeric operands", False)
            else:
                facts = facts if facts is not None else facts_at(n)
                lg = lk in (INT, FLOAT) or _numeric_guarded(facts, left)
                rg = rk in (INT, FLOAT) or _numeric_guarded(facts, right)
                if lg and rg:
                    chk.ok("C15-D2b", fi, n, text,
                           "isinstance facts make both operands numeric")
                else:
                    chk.fail(
                        "C15-D2b", fi, n, text,
                        "ordering comparison between a {} and a {} operand; "
                        "document keys/values may be of any scalar type, so "
                        "this can raise TypeError".format(lk, rk))
        elif isinstance(op, (ast.In, ast.NotIn)):
            text = "{} in {}".format(src(left), src(right))
            facts = facts if facts is not None else facts_at(n)
            why = _container_ok(right, kinds, facts, taint)
            if why is None and any(
                    f.kind == "cond" and f.pol and
                    src(f.expr).endswith(".wraps_a(dict)") for f in facts):
                why = ("out of the property's scope: collector operand "
                       "wrapping a hash")
            if why:
                chk.ok("C15-D2c", fi, n, text, why,
                       nontrivial=taint.is_doc(right))
            else:
                chk.fail(
                    "C15-D2c", fi, n, text,
                    "`{}` may be None or a scalar here (document-derived, "
                    "no isinstance / not-None fact): `in` raises TypeError"
                    .format(src(right)))
            # hashing of the left operand when the right one is a local dict
            _check_hash(chk, fi, n, right, left, kinds, taint)
        left = right


def _container_ok(right: ast.AST, kinds: Kinds, facts: List[Fact],
                  taint: DocTaint) -> Optional[str]:
    k = kinds.kind(right)
    if k in (CONT, STR):
        return "right operand is a {}".format(k)
    rs = src(right)
    ts = isinstance_types(facts, rs)
    if ts:
        return "isinstance({}, {}) fact".format(rs, "/".join(sorted(ts)))
    f = not_none_fact(facts, rs)
    if f is not None:
        return "not-None fact `{}`".format(f)
    f = hasattr_fact(facts, rs)
    if f is not None:
        return "hasattr fact `{}`".format(f)
    if not taint.is_doc(right) and isinstance(right, ast.Name) and \
            right.id in kinds.defs and k == UNKNOWN:
        # loop variable over a local list of dict literals etc.
        return None
    return None


def _check_hash(chk: Check, fi: FuncInfo, node: ast.AST, cont: ast.AST,
                key: ast.AST, kinds: Kinds, taint: DocTaint) -> None:
    """Key uses on a *local* dict with a document-derived key."""
    if not isinstance(cont, ast.Name):
        return
    if taint.is_doc(cont) or cont.id in fi.params():
        return
    # is the container a local dict?
    ds = kinds.defs.get(cont.id, [])
    is_dict = any(isinstance(d, ast.Dict) for d in ds)
    if not is_dict:
        return
    if not taint.is_doc(key):
        return
    text = "{}[{}]".format(cont.id, src(key))
    if isinstance(key, ast.Name) and key.id in taint.hashable:
        chk.ok("C15-D2d", fi, node, text,
               "key is a mapping key / set member (hashable)")
        return
    kk = kinds.kind(key)
    if kk in (INT, STR, FLOAT, BOOL):
        chk.ok("C15-D2d", fi, node, text, "key is a {}".format(kk))
        return
    facts = facts_at(node)
    neg = isinstance_types(facts, src(key), pol=False)
    if {"list", "dict", "set"} <= neg or {"list", "dict"} <= neg:
        chk.ok("C15-D2d", fi, node, text, "guarded by a scalar test")
        return
    chk.fail("C15-D2d", fi, node, "<local dict>[<document value>]",
             "document value `{}` is used as a key of the local dict `{}`; "
             "a list or hash member is unhashable (TypeError)".format(
                 src(key), cont.id))


def _opname(op: ast.cmpop) -> str:
    return {ast.Lt: "<", ast.LtE: "<=", ast.Gt: ">", ast.GtE: ">="}.get(
        type(op), "?")


def d2e_wrapped_elements(chk: Check) -> None:
    """A keyword search that classifies its input on the *unwrapped* form
    (`node_is_aoh(unwrap_node_coords(data))`) believes its elements may
    arrive wrapped in NodeCoords -- they do when the input is a collector's
    result.  Inside that branch an element is used as a mapping (`k in e`,
    `e[k]`) only after it has been unwrapped too: a NodeCoords is not
    iterable / subscriptable by key and the query ends in a TypeError."""
    from sa.coords import reaching_def
    prog = chk.prog
    chk.rule("C15-D2e", "inside a branch taken on the unwrapped form of its "
             "input, a keyword search uses an element as a mapping only "
             "after unwrapping it", floor=8)

    def has_unwrap(e: ast.AST) -> bool:
        return any(isinstance(x, ast.Call) and
                   src(x.func).endswith("unwrap_node_coords")
                   for x in ast.walk(e))

    for fi in prog.funcs_in("yamlpath/common/keywordsearches.py"):
        unwrapped: Dict[str, str] = {}
        for n in walk_local(fi.node):
            if isinstance(n, (ast.Assign, ast.AnnAssign)) and \
                    isinstance(n.value, ast.Call) and \
                    src(n.value.func).endswith("unwrap_node_coords") and \
                    n.value.args and src(n.value.args[0]) in fi.params():
                tgt = n.targets[0] if isinstance(n, ast.Assign) else n.target
                unwrapped[src(tgt)] = src(n.value.args[0])
        if not unwrapped:
            continue
        for br in walk_local(fi.node):
            if not (isinstance(br, ast.If) and isinstance(br.test, ast.Call)
                    and src(br.test.func).endswith("node_is_aoh") and
                    br.test.args and src(br.test.args[0]) in unwrapped):
                continue
            raw = unwrapped[src(br.test.args[0])]
            for loop in [x for st in br.body for x in ast.walk(st)
                         if isinstance(x, ast.For)]:
                it = loop.iter
                if isinstance(it, ast.Call) and src(it.func) == "enumerate" \
                        and it.args and src(it.args[0]) == raw and \
                        isinstance(loop.target, ast.Tuple):
                    elem = src(loop.target.elts[1])
                elif src(it) == raw:
                    elem = src(loop.target)
                else:
                    continue
                for u in walk_local(loop):
                    used: Optional[ast.AST] = None
                    if isinstance(u, ast.Compare) and len(u.ops) == 1 and \
                            isinstance(u.ops[0], (ast.In, ast.NotIn)) and \
                            isinstance(u.comparators[0], ast.Name):
                        used = u.comparators[0]
                    elif isinstance(u, ast.Subscript) and \
                            isinstance(u.ctx, ast.Load) and \
                            isinstance(u.value, ast.Name):
                        used = u.value
                    if used is None:
                        continue
                    nm = src(used)
                    if nm == elem:
                        good = False
                    else:
                        d = reaching_def(nm, u)
                        if d is None or elem not in {
                                x.id for x in ast.walk(d)
                                if isinstance(x, ast.Name)}:
                            continue
                        good = has_unwrap(d)
                    text = "{}: `{}` used as a mapping".format(
                        fi.short, src(u)[:40])
                    if good:
                        chk.ok("C15-D2e", fi, u, text, "unwrapped first")
                    else:
                        chk.fail("C15-D2e", fi, u, text,
                                 "the branch is taken on the unwrapped form "
                                 "of `{}` but its element is used as it "
                                 "arrives: a NodeCoords element (collector "
                                 "output) raises TypeError".format(raw))


def d2f_join_over_text(chk: Check, cl: List[FuncInfo]) -> None:
    """`sep.join(xs)` raises TypeError unless every element is text.  Keys,
    members and values of a document are arbitrary scalars (integer ports,
    dates, booleans, null), so a join over them -- even inside a debug
    message, whose arguments are evaluated whether or not debugging is on
    -- ends a query with a foreign exception."""
    prog = chk.prog
    chk.rule("C15-D2f", "no `.join()` in the closure of get_nodes()/exists() "
             "ranges over document data unless each element is converted "
             "to text (or the value is known to be a str)", floor=2)
    n = 0
    for fi in cl:
        dps = _data_params(fi) | {"data"} & set(fi.params())
        for c in walk_local(fi.node):
            if not (isinstance(c, ast.Call) and
                    isinstance(c.func, ast.Attribute) and
                    c.func.attr == "join" and len(c.args) == 1 and
                    isinstance(c.func.value, (ast.Constant, ast.Name))):
                continue
            if isinstance(c.func.value, ast.Name) and \
                    not c.func.value.id.endswith(("sep", "term", "glue")):
                continue
            n += 1
            arg = c.args[0]
            roots = {x.id for x in ast.walk(arg) if isinstance(x, ast.Name)}
            text = "{}: `{}`".format(fi.short, src(c)[:50])
            if not (roots & dps):
                chk.ok("C15-D2f", fi, c, text, "not over document data")
                continue
            converted = isinstance(arg, (ast.GeneratorExp, ast.ListComp)) \
                and isinstance(arg.elt, (ast.Call, ast.JoinedStr)) and (
                    isinstance(arg.elt, ast.JoinedStr) or
                    src(arg.elt.func) in ("str", "repr") or
                    src(arg.elt.func).endswith(".format"))
            converted = converted or (
                isinstance(arg, ast.Call) and src(arg.func) == "map" and
                arg.args and src(arg.args[0]) in ("str", "repr"))
            known_str = isinstance(arg, ast.Name) and any(
                f.kind == "cond" and f.pol and isinstance(f.expr, ast.Call)
                and src(f.expr.func) == "isinstance" and
                src(f.expr.args[1]) == "str" and
                src(f.expr.args[0]) in roots | {
                    a.targets[0].id for a in walk_local(fi.node)
                    if isinstance(a, ast.Assign) and
                    isinstance(a.targets[0], ast.Name) and
                    isinstance(a.value, ast.Name) and a.value.id == arg.id}
                for f in facts_at(c))
            if converted or known_str:
                chk.ok("C15-D2f", fi, c, text, "elements converted to text"
                       if converted else "a str (joins its characters)")
            else:
                chk.fail("C15-D2f", fi, c, text,
                         "joins document data as it is: a non-text key / "
                         "member (integer, date, null) raises TypeError out "
                         "of the query")
    if n < 2:
        raise AnalysisError("join sites of the closure not found")


def d2h_aoh_means_raw_elements_are_mappings(chk: Check) -> None:
    """Callers take `node_is_aoh(x)` as licence to treat the elements of x
    *as they are* as mappings (`term in ele`, `ele[key]`) -- that is how
    the `in` sites of the search handler are discharged.  The predicate
    must therefore test the elements themselves.  If it looks through a
    wrapper first (NodeCoords elements of a Collector result), a list of
    wrappers is reported as an Array-of-Hashes and `term in <NodeCoords>`
    raises TypeError."""
    prog = chk.prog
    chk.rule("C15-D2h", "Nodes.node_is_aoh tests isinstance(<element>, dict) "
             "on the element as iterated (no re-binding, no unwrapping)",
             floor=1)
    fi = prog.func("Nodes.node_is_aoh")
    loops = [l for l in walk_local(fi.node) if isinstance(l, ast.For)]
    if len(loops) != 1 or not isinstance(loops[0].target, ast.Name):
        raise AnalysisError("element loop of node_is_aoh not found")
    loop = loops[0]
    ele = loop.target.id
    rebound = [x for st in loop.body for x in ast.walk(st)
               if isinstance(x, ast.Name) and x.id == ele and
               isinstance(x.ctx, ast.Store)]
    tests = [c for st in loop.body for c in ast.walk(st)
             if isinstance(c, ast.Call) and src(c.func) == "isinstance" and
             len(c.args) == 2 and "dict" in src(c.args[1])]
    text = "node_is_aoh: element test"
    if rebound:
        chk.fail("C15-D2h", fi, rebound[0], text,
                 "`{}` is re-bound before it is tested: the verdict is "
                 "about something other than the element the caller will "
                 "use (`term in ele` on a NodeCoords raises TypeError)"
                 .format(ele))
    elif tests and all(src(t.args[0]) == ele for t in tests):
        chk.ok("C15-D2h", fi, tests[0], text,
               "isinstance({}, dict) on the iterated element".format(ele))
    else:
        chk.fail("C15-D2h", fi, loop, text,
                 "no isinstance(<element>, dict) test on the raw element")


def d2i_wrapper_equality_is_total(chk: Check) -> None:
    """`x in seq`, `seq.index(x)`, `seq.remove(x)`, `a == b` call `__eq__`
    with whatever operand is at hand -- through the reflected call also with
    a plain string on the other side.  NodeCoords has no `__eq__` (equality
    is identity, which is what the rule tables keyed by NodeCoords want).
    If one is added it must be total: reading `other.node` of a str raises
    AttributeError out of `match_key in data` as soon as `data` is a slice
    or Collector result (a list of NodeCoords)."""
    prog = chk.prog
    chk.rule("C15-D2i", "NodeCoords defines no __eq__ / __ne__, or one that "
             "reads attributes of its operand only under an isinstance test",
             floor=1)
    ci = prog.class_by_name("NodeCoords")
    found = False
    for name in ("__eq__", "__ne__"):
        m = ci.methods.get(name)
        if m is None:
            continue
        found = True
        other = m.params()[1] if len(m.params()) > 1 else None
        reads = [a for a in walk_local(m.node) if isinstance(a, ast.Attribute)
                 and other and src(a.value) == other]
        unguarded = [a for a in reads if not any(
            f.kind == "cond" and f.pol and isinstance(f.expr, ast.Call) and
            src(f.expr.func) == "isinstance" and
            src(f.expr.args[0]) == other for f in facts_at(a))]
        text = "NodeCoords.{}".format(name)
        if unguarded:
            chk.fail("C15-D2i", m, unguarded[0], text,
                     "`{}` is read whatever the operand is: a membership "
                     "test of text in a list of NodeCoords (`key in data` "
                     "on a slice or Collector result) raises "
                     "AttributeError: 'str' object has no attribute "
                     "'node'".format(src(unguarded[0])))
        else:
            chk.ok("C15-D2i", m, m.node, text, "total")
    if not found:
        chk.ok("C15-D2i", None, None, "NodeCoords equality",
               "identity (no __eq__ / __ne__ defined)")


def d2k_generators_iterate_snapshots_of_mappings(chk: Check,
                                                 cl: List[FuncInfo]) -> None:
    """The evaluator is a chain of generators: while `*`, a search or `**`
    is suspended at a `yield` inside `for key, val in data.items()`, the
    segments that follow run.  With `[parent()]` they can come back to the
    very mapping being iterated, and in optional-match mode create a key in
    it -- the next step of the suspended loop then raises RuntimeError
    ("OrderedDict mutated during iteration").  Loops that yield therefore
    walk a snapshot of the mapping's view."""
    prog = chk.prog
    chk.rule("C15-D2k", "every loop of the evaluation closure that yields "
             "while iterating a mapping view of document data iterates a "
             "snapshot (list(...)) of it", floor=5)
    n = 0
    for fi in cl:
        if not fi.module.relpath.endswith("processor.py"):
            continue
        data = fi.params()[1] if len(fi.params()) > 1 else None
        for loop in walk_local(fi.node):
            if not isinstance(loop, ast.For):
                continue
            it = loop.iter
            snap = False
            while isinstance(it, ast.Call) and isinstance(it.func, ast.Name) \
                    and it.func.id in ("list", "tuple", "sorted") and it.args:
                it = it.args[0]
                snap = True
            if not (isinstance(it, ast.Call) and
                    isinstance(it.func, ast.Attribute) and
                    it.func.attr in ("items", "keys", "values") and
                    src(it.func.value) == data):
                continue
            if not any(isinstance(y, (ast.Yield, ast.YieldFrom))
                       for st in loop.body for y in ast.walk(st)):
                continue
            n += 1
            text = "{}: for ... in {}".format(fi.short, src(loop.iter)[:40])
            if snap:
                chk.ok("C15-D2k", fi, loop, text, "snapshot")
            else:
                chk.fail("C15-D2k", fi, loop, text,
                         "the generator is suspended inside a live view of "
                         "`{}`: a later segment that climbs back with "
                         "[parent()] and creates a key there (optional-match "
                         "mode) makes the resumed loop raise RuntimeError: "
                         "OrderedDict mutated during iteration".format(data))


def d2l_creation_helper_refuses_only_real_values(chk: Check) -> None:
    """The optional-match driver calls `Nodes.append_list_element` with a
    null placeholder when an Anchor segment matches nothing in an Array
    (the default mode of get_nodes()).  The helper's own `raise ValueError`
    ("impossible to add an Anchor to value") is outside the exception
    analysis of the evaluator; it is harmless only because it sits behind
    `value is not None`.  Without that guard an unmatched `list[&name]`
    raises ValueError out of a plain read."""
    prog = chk.prog
    chk.rule("C15-D2l", "every raise of Nodes.append_list_element stands "
             "under `<value> is not None`", floor=1)
    fi = prog.func("Nodes.append_list_element")
    value = fi.params()[1]
    raises = [r for r in walk_local(fi.node) if isinstance(r, ast.Raise)]
    if not raises:
        chk.ok("C15-D2l", fi, fi.node, "append_list_element", "raises "
               "nothing")
        return
    for r in raises:
        # (the value is re-bound to its wrapped form inside the guard, which
        # kills the guard fact: read the enclosing tests instead)
        guarded = False
        child = r
        for a in ancestors(r):
            if isinstance(a, ast.If) and any(child is st or any(
                    x is child for x in ast.walk(st)) for st in a.body):
                conj = a.test.values if isinstance(a.test, ast.BoolOp) and \
                    isinstance(a.test.op, ast.And) else [a.test]
                if any(src(v) == value + " is not None" for v in conj):
                    guarded = True
            child = a
        text = "append_list_element: {}".format(src(r)[:50])
        if guarded:
            chk.ok("C15-D2l", fi, r, text, "only for a real value")
        else:
            chk.fail("C15-D2l", fi, r, text,
                     "reachable with the null placeholder the optional-"
                     "match driver passes: get_nodes('servers[&standby]') "
                     "on a list without that anchor raises ValueError")


def run(chk: Check) -> None:
    prog = chk.prog
    cl = c15_closure(prog)
    if len(cl) < 45:
        raise AnalysisError("closure of get_nodes/exists shrank to {} "
                            "functions".format(len(cl)))
    d1_raises(chk, cl)
    # the ladder proof above treats (type, attributes) pairs as well-typed;
    # a segment type leaking from one recorded segment into the next breaks
    # that (a COLLECTOR with text attributes reaches NotImplementedError)
    from rules.c08 import d5_rearm
    d5_rearm(chk, "C15-D1b")
    d1c_total_handlers(chk, cl)
    from rules.c14 import d2c_templates
    d2c_templates(chk, cl, "C15-D1d")
    d2_partial(chk, cl)
    d2_types(chk, cl)
    d2e_wrapped_elements(chk)
    d2f_join_over_text(chk, cl)
    d2h_aoh_means_raw_elements_are_mappings(chk)
    d2i_wrapper_equality_is_total(chk)
    d2l_creation_helper_refuses_only_real_values(chk)
    d2k_generators_iterate_snapshots_of_mappings(chk, cl)
    from rules.shared import optional_groups_rule
    optional_groups_rule(chk, "C15-D2j", ("yamlpath/common/nodes.py",
                                          "yamlpath/common/parsers.py",
                                          "yamlpath/processor.py"), 1)
    from rules.shared import match_result_deref_rule
    match_result_deref_rule(chk, "C15-D2m", cl, floor=40)
    from rules.shared import modulo_by_length_rule
    modulo_by_length_rule(chk, "C15-D2n", cl, floor=40)
    from rules.shared import implicit_ordering_rule
    implicit_ordering_rule(chk, "C15-D2g", [
        f for f in cl if not f.short.startswith(C14_OWNED_PREFIX)], 40)
    chk.notes.append("closure: {} functions".format(len(cl)))
    chk.notes.append("non-negative int parameters: {}".format(
        sorted("{}.{}".format(q.split(".")[-1], p)
               for q, p in nonneg(prog).params)))
