"""Per-iteration scratch variables that leak from one iteration to the next.

A local that (1) is read only inside one loop, (2) is assigned inside that
loop only conditionally (under an `if`, or in a nested loop), and (3) gets
its initial value *before* the loop, carries the value left by an earlier
iteration into a later one.  For a scratch variable ("index of the entry to
fold, or -1") that is a stale-state bug; an accumulator is read after the
loop and is not reported.
"""
from __future__ import annotations

import ast
from typing import List, Tuple

from .model import FuncInfo, ancestors, src, walk_local


def leaking_scratch(fi: FuncInfo) -> Tuple[List[Tuple[ast.For, str]], int]:
    out: List[Tuple[ast.For, str]] = []
    n_loops = 0
    body_nodes = list(walk_local(fi.node))
    for loop in body_nodes:
        if not isinstance(loop, (ast.For, ast.While)):
            continue
        # only outermost position matters: examine each loop on its own
        n_loops += 1
        inside = [n for n in walk_local(loop)]
        inside_ids = {id(n) for n in inside}
        stores_in = {}
        for n in inside:
            if isinstance(n, ast.Name) and isinstance(n.ctx, ast.Store):
                stores_in.setdefault(n.id, []).append(n)
        for name, stores in stores_in.items():
            # loop targets are per-iteration by construction
            tgt_names = {x.id for x in ast.walk(getattr(loop, "target",
                                                        ast.Tuple(elts=[])))
                         if isinstance(x, ast.Name)}
            if name in tgt_names:
                continue
            # (2) every store inside is conditional (not a top-level
            # statement of the loop body)
            top = set()
            for st in loop.body:
                if isinstance(st, (ast.Assign, ast.AnnAssign)):
                    for t in (st.targets if isinstance(st, ast.Assign)
                              else [st.target]):
                        for x in ast.walk(t):
                            if isinstance(x, ast.Name):
                                top.add(id(x))
            if any(id(s) in top for s in stores):
                continue
            # inner loop targets / comprehension variables are fine
            if all(any(isinstance(a, (ast.For, ast.comprehension)) and
                       any(x is s for x in ast.walk(a.target))
                       for a in ancestors(s)) for s in stores):
                continue
            # (1) read inside, never read after the loop
            reads = [n for n in body_nodes if isinstance(n, ast.Name) and
                     n.id == name and isinstance(n.ctx, ast.Load)]
            if not reads or any(id(r) not in inside_ids for r in reads
                                if r.lineno > loop.lineno):
                continue
            if any(id(r) not in inside_ids for r in reads):
                continue
            # (3) initialised before the loop, in the same function
            inits = [n for n in body_nodes
                     if isinstance(n, (ast.Assign, ast.AnnAssign)) and
                     id(n) not in inside_ids and n.lineno < loop.lineno and
                     any(isinstance(x, ast.Name) and x.id == name
                         for t in (n.targets if isinstance(n, ast.Assign)
                                   else [n.target]) for x in ast.walk(t))]
            if not inits:
                continue
            out.append((loop, name))
    return out, n_loops


def stale_search_results(fi: FuncInfo
                         ) -> Tuple[List[Tuple[ast.For, str]], int]:
    """The find-first idiom inside an outer loop::

        P = <not found>
        for i, e in <candidates>:
            if <hit>:
                P = i
                break
        if P <found>: ... use P ...

    ``P`` must receive its "not found" value in the same block as the
    search loop, before it: initialised outside the *outer* loop it keeps
    the hit of an earlier outer iteration when the search finds nothing.
    Returns (offending (search loop, variable), number of idioms seen)."""
    from .model import parent
    out: List[Tuple[ast.For, str]] = []
    n = 0
    for search in walk_local(fi.node):
        if not isinstance(search, ast.For):
            continue
        outer = [a for a in ancestors(search)
                 if isinstance(a, (ast.For, ast.While))
                 and any(x is a for x in walk_local(fi.node))]
        if not outer:
            continue
        idx_names = {x.id for x in ast.walk(search.target)
                     if isinstance(x, ast.Name)}
        results = set()
        for st in walk_local(search):
            if isinstance(st, ast.Assign) and len(st.targets) == 1 and \
                    isinstance(st.targets[0], ast.Name) and \
                    isinstance(st.value, ast.Name) and \
                    st.value.id in idx_names and \
                    any(isinstance(a, ast.If) for a in ancestors(st)
                        if any(x is a for x in walk_local(search))):
                results.add(st.targets[0].id)
        if not results:
            continue
        blk_owner = parent(search)
        blk = None
        for field in ("body", "orelse", "finalbody"):
            b = getattr(blk_owner, field, None)
            if isinstance(b, list) and search in b:
                blk = b
        if blk is None:
            continue
        before = blk[:blk.index(search)]
        after = blk[blk.index(search) + 1:]
        for p in sorted(results):
            used_after = any(isinstance(x, ast.Name) and x.id == p and
                             isinstance(x.ctx, ast.Load)
                             for s in after for x in ast.walk(s))
            if not used_after:
                continue
            n += 1
            init_here = any(
                isinstance(s, (ast.Assign, ast.AnnAssign)) and any(
                    isinstance(x, ast.Name) and x.id == p
                    for t in (s.targets if isinstance(s, ast.Assign)
                              else [s.target]) for x in ast.walk(t))
                for s in before)
            if not init_here:
                out.append((search, p))
    return out, n
