"""Twin arms: `if <flag> is None: X = T(a, b, c) else: X = T(a, b, c,
flag=flag)` -- two constructor calls that must agree on everything but the
optional extra.  (Copy-and-edit twins drift: one arm loses an argument.)"""
from __future__ import annotations

import ast
from typing import List, Optional, Tuple

from .model import FuncInfo, src, walk_local


def _single_call(block: List[ast.stmt]) -> Optional[Tuple[str, ast.Call]]:
    if len(block) != 1:
        return None
    st = block[0]
    if isinstance(st, ast.Assign) and len(st.targets) == 1 and \
            isinstance(st.value, ast.Call):
        return src(st.targets[0]), st.value
    if isinstance(st, ast.Return) and isinstance(st.value, ast.Call):
        return "<return>", st.value
    return None


def twin_constructor_arms(fi: FuncInfo
                          ) -> List[Tuple[ast.If, str, Optional[str]]]:
    """(if node, description, problem or None) for every if/else whose two
    arms are single assignments (or returns) of calls to the same callee."""
    out: List[Tuple[ast.If, str, Optional[str]]] = []
    for n in walk_local(fi.node):
        if not (isinstance(n, ast.If) and n.orelse):
            continue
        a, b = _single_call(n.body), _single_call(n.orelse)
        if a is not None and b is None and len(n.orelse) == 1 and \
                isinstance(n.orelse[0], ast.If) and not n.orelse[0].orelse:
            # `if flag: X = T(a, extra) elif G: X = T(a)`: the second arm
            # believes T must not be called unless G; the first arm calls
            # it regardless
            inner = n.orelse[0]
            c = _single_call(inner.body)
            if c is not None and c[0] == a[0] and \
                    src(c[1].func) == src(a[1].func):
                out.append((n, "{} = {}(...) in both arms of `if {}`".format(
                    a[0], src(a[1].func), src(n.test)),
                    "the second arm makes the call only under `{}`; the "
                    "first arm makes the same call unguarded".format(
                        src(inner.test))))
            continue
        if a is None or b is None or a[0] != b[0]:
            continue
        ca, cb = a[1], b[1]
        if src(ca.func) != src(cb.func):
            continue
        # names the test is about (the optional extra)
        subject = {x.id for x in ast.walk(n.test) if isinstance(x, ast.Name)}
        desc = "{} = {}(...) in both arms of `if {}`".format(
            a[0], src(ca.func), src(n.test))

        def norm(c: ast.Call) -> Tuple[List[str], List[str]]:
            pos = [src(x) for x in c.args]
            kws = sorted("{}={}".format(k.arg, src(k.value))
                         for k in c.keywords
                         if not ({y.id for y in ast.walk(k.value)
                                  if isinstance(y, ast.Name)} & subject))
            # positional arguments about the subject are the extra too
            pos = [p for p, x in zip(pos, c.args)
                   if not ({y.id for y in ast.walk(x)
                            if isinstance(y, ast.Name)} & subject)]
            return pos, kws
        pa, ka = norm(ca)
        pb, kb = norm(cb)
        problem = None
        if pa != pb:
            problem = "positional arguments differ: {} vs {}".format(pa, pb)
        elif ka != kb:
            problem = "keyword arguments differ: {} vs {}".format(ka, kb)
        out.append((n, desc, problem))
    return out
