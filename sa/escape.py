"""Exception-escape analysis for explicit ``raise`` statements.

For each function: the exception classes raised explicitly (class-resolved)
that are not caught by an enclosing handler, plus what resolved callees let
escape, minus what the handlers around each call site catch.
"""
from __future__ import annotations

import ast
from typing import Dict, List, Optional, Set, Tuple

from .model import (FUNC_TYPES, FuncInfo, Program, ancestors, callees, src,
                    walk_local)
from .partial import enclosing_handlers, handler_names

BUILTIN_BASES = {
    "IndexError": ["LookupError", "Exception"],
    "KeyError": ["LookupError", "Exception"],
    "ValueError": ["Exception"],
    "TypeError": ["Exception"],
    "NotImplementedError": ["RuntimeError", "Exception"],
    "AttributeError": ["Exception"],
    "NameError": ["Exception"],
    "RuntimeError": ["Exception"],
    "AssertionError": ["Exception"],
    "OSError": ["Exception"],
    "FileNotFoundError": ["OSError", "Exception"],
    "StopIteration": ["Exception"],
    "SystemExit": ["BaseException"],
    "KeyboardInterrupt": ["BaseException"],
}


class Escape:
    def __init__(self, prog: Program) -> None:
        self.prog = prog
        self._memo: Dict[str, Set[Tuple[str, str]]] = {}
        self._origin: Dict[Tuple[str, str], Tuple[FuncInfo, ast.AST]] = {}

    def class_of_raise(self, fi: FuncInfo, node: ast.Raise) -> Optional[str]:
        exc = node.exc
        if exc is None:
            return None
        if isinstance(exc, ast.Call):
            exc = exc.func
        q = self.prog.resolve_expr_to_qual(fi.module, exc)
        if q is not None:
            return q
        if isinstance(exc, ast.Name):
            import builtins
            if isinstance(getattr(builtins, exc.id, None), type):
                return exc.id
            # variable holding an exception (``raise ex``): unknown class
            return "<dynamic:{}>".format(exc.id)
        return src(exc)

    def supers(self, cls: str) -> List[str]:
        """Names a handler could use to catch ``cls``."""
        out: List[str] = []
        seen: Set[str] = set()
        stack = [cls]
        while stack:
            cur = stack.pop()
            if cur in seen:
                continue
            seen.add(cur)
            short = cur.split(".")[-1]
            out.append(short)
            if cur in self.prog.classes:
                stack.extend(self.prog.classes[cur].bases)
            elif short in BUILTIN_BASES:
                stack.extend(BUILTIN_BASES[short])
            elif short not in ("BaseException", "object"):
                stack.append("Exception")
        if "BaseException" not in out:
            out.append("BaseException")
        return out

    def caught(self, node: ast.AST, cls: str) -> bool:
        names = self.supers(cls)
        for h in enclosing_handlers(node):
            for hn in handler_names(h):
                if hn.split(".")[-1] in names:
                    return True
        return False

    def local_raises(self, fi: FuncInfo) -> List[Tuple[str, ast.Raise]]:
        out: List[Tuple[str, ast.Raise]] = []
        for n in walk_local(fi.node):
            if isinstance(n, ast.Raise):
                cls = self.class_of_raise(fi, n)
                if cls is None:
                    # bare re-raise: class(es) of the enclosing handler
                    for anc in ancestors(n):
                        if isinstance(anc, ast.ExceptHandler):
                            for hn in handler_names(anc):
                                q = self.prog.resolve_name(fi.module, hn) \
                                    or hn
                                out.append((q, n))
                            break
                    continue
                out.append((cls, n))
        return out

    def compute(self, funcs: List[FuncInfo]) -> None:
        """Fixpoint over ``funcs``: what leaves each function."""
        quals = {f.qual for f in funcs}
        esc: Dict[str, Set[Tuple[str, str]]] = {}
        edges: Dict[str, List[Tuple[ast.AST, str]]] = {}
        for fi in funcs:
            cur: Set[Tuple[str, str]] = set()
            for cls, node in self.local_raises(fi):
                if self.caught(node, cls):
                    continue
                key = "{}:{}".format(fi.short, node.lineno)
                self._origin[(cls, key)] = (fi, node)
                cur.add((cls, key))
            esc[fi.qual] = cur
            edges[fi.qual] = [(site, c.qual)
                              for site, c in callees(self.prog, fi)
                              if c.qual in quals]
        changed = True
        while changed:
            changed = False
            for fi in funcs:
                cur = esc[fi.qual]
                for site, cq in edges[fi.qual]:
                    for cls, key in esc[cq]:
                        if (cls, key) not in cur and \
                                not self.caught(site, cls):
                            cur.add((cls, key))
                            changed = True
        self._memo.update(esc)

    def escaping(self, fi: FuncInfo) -> Set[Tuple[str, str]]:
        return self._memo[fi.qual]

    def origin(self, cls: str, key: str) -> Tuple[FuncInfo, ast.AST]:
        return self._origin[(cls, key)]


def enum_chain_exhaustive(prog: Program, raise_node: ast.AST
                          ) -> Optional[str]:
    """A ``raise`` in the final ``else`` of an if/elif ladder that tests one
    enum's members is unreachable when every member has a branch.  Returns
    the justification or None."""
    from .model import parent
    # climb the else-chain to the top ``if``
    cur = parent(raise_node)
    if not isinstance(cur, ast.If) or raise_node not in cur.orelse:
        return None
    tests: List[ast.AST] = []
    node: ast.AST = cur
    while True:
        assert isinstance(node, ast.If)
        tests.append(node.test)
        par = parent(node)
        if isinstance(par, ast.If) and par.orelse == [node]:
            node = par
            continue
        break
    members: Dict[str, Set[str]] = {}
    for t in tests:
        for n in ast.walk(t):
            if isinstance(n, ast.Compare) and len(n.ops) == 1 and \
                    isinstance(n.ops[0], (ast.Eq, ast.Is)):
                for side in (n.left, n.comparators[0]):
                    if isinstance(side, ast.Attribute) and \
                            isinstance(side.value, ast.Name):
                        members.setdefault(side.value.id, set()).add(
                            side.attr)
    for cls_name, seen in members.items():
        if not prog.has_class(cls_name):
            continue
        ci = prog.class_by_name(cls_name)
        if not prog.is_enum(ci):
            continue
        allm = set(prog.enum_members(cls_name))
        if allm <= seen:
            return ("if/elif ladder covers all {} members of {}".format(
                len(allm), cls_name))
    return None
