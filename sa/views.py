"""View discipline of parsed paths.

A YAMLPath offers two parses of the same text: ``.escaped`` (escape marks
removed: what a segment *means*, to be compared with document data) and
``.unescaped`` (escape marks kept: what the user *wrote*, for messages and
for re-rendering).  Comparing document data with the unescaped view makes
``a\\ b`` miss the key ``a b``.

``unescaped_flows(fn)`` taints every local bound from an expression that
reads ``.unescaped`` and reports each use that is not one of the benign
sinks: messages (``str()``, ``.format``, f-strings, logger and exception
constructor arguments), relay of the segment to results (``relay_segment=``
keyword, last argument of ``NodeCoords``), ``isinstance`` tests, comparison
of the segment *type* with an enum member.
"""
from __future__ import annotations

import ast
from typing import List, Set, Tuple

from .model import ancestors, parent, src, walk_local

MESSAGE_CALLS = ("debug", "verbose", "info", "warning", "error", "critical",
                 "format", "str", "repr", "join")


def _tainted_names(fn: ast.AST) -> Tuple[Set[str], Set[str]]:
    """(names holding unescaped attributes / segments, names holding the
    unescaped segment *type*)."""
    attrs: Set[str] = set()
    types: Set[str] = set()
    for _ in range(3):
        for n in walk_local(fn):
            if not isinstance(n, (ast.Assign, ast.AnnAssign)) or \
                    n.value is None:
                continue
            tgt = n.targets[0] if isinstance(n, ast.Assign) else n.target
            if not _carries(n.value, attrs):
                continue
            if isinstance(tgt, ast.Name):
                attrs.add(tgt.id)
            elif isinstance(tgt, ast.Tuple) and len(tgt.elts) == 2:
                a, b = tgt.elts
                if isinstance(a, ast.Name) and a.id != "_":
                    types.add(a.id)
                if isinstance(b, ast.Name) and b.id != "_":
                    attrs.add(b.id)
    return attrs, types


def _carries(e: ast.AST, attrs: Set[str]) -> bool:
    """``e`` denotes (a part of) an unescaped segment: the ``.unescaped``
    attribute itself, a tainted name, a subscript / attribute of one, or
    ``str()`` of one."""
    while True:
        if isinstance(e, ast.Attribute) and e.attr == "unescaped":
            return True
        if isinstance(e, ast.Name):
            return e.id in attrs
        if isinstance(e, (ast.Subscript, ast.Attribute)):
            e = e.value
            continue
        if isinstance(e, ast.Call) and isinstance(e.func, ast.Name) and \
                e.func.id == "str" and len(e.args) == 1:
            e = e.args[0]
            continue
        return False


def _in_message(node: ast.AST, stop: ast.AST) -> bool:
    cur = node
    while cur is not None and cur is not stop:
        p = parent(cur)
        if isinstance(p, ast.Call) and cur is not p.func:
            f = p.func
            name = f.attr if isinstance(f, ast.Attribute) else (
                f.id if isinstance(f, ast.Name) else "")
            if name in MESSAGE_CALLS or name.endswith("Exception") or \
                    name.endswith("Error"):
                return True
        if isinstance(p, (ast.JoinedStr, ast.FormattedValue)):
            return True
        cur = p
    return False


def unescaped_flows(fn: ast.AST, allow_calls: Tuple[str, ...] = ()
                    ) -> Tuple[List[Tuple[ast.AST, str]], int]:
    """Uses of unescaped-derived values outside the benign sinks.
    ``allow_calls``: callee-name suffixes that may receive the unescaped
    attributes positionally (with a reason given by the caller).
    Returns (violations, number of uses examined)."""
    attrs, types = _tainted_names(fn)
    bad: List[Tuple[ast.AST, str]] = []
    n_uses = 0
    for n in walk_local(fn):
        if not (isinstance(n, ast.Name) and isinstance(n.ctx, ast.Load)):
            continue
        if n.id not in attrs and n.id not in types:
            continue
        n_uses += 1
        p = parent(n)
        if n.id in types and n.id not in attrs:
            # the type is the same in both views
            continue
        if _in_message(n, fn):
            continue
        # unpacking / plain re-binding (handled by taint propagation)
        if isinstance(p, (ast.Assign, ast.AnnAssign)) and \
                getattr(p, "value", None) is n:
            continue
        if isinstance(p, ast.keyword) and p.arg == "relay_segment":
            continue
        if isinstance(p, ast.Call) and n in p.args:
            callee = src(p.func)
            if callee == "isinstance":
                continue
            if callee == "NodeCoords" and p.args[-1] is n and \
                    len(p.args) >= 6:
                continue
            if any(callee.endswith(a) for a in allow_calls):
                continue
            bad.append((n, "the unescaped `{}` is handed to `{}`".format(
                n.id, callee)))
            continue
        if isinstance(p, ast.Subscript) and p.value is n:
            # taking the segment apart: taint continues through the target
            gp = parent(p)
            if isinstance(gp, (ast.Assign, ast.AnnAssign)):
                continue
        if isinstance(p, ast.Yield) or isinstance(p, ast.Return):
            bad.append((n, "the unescaped `{}` is returned".format(n.id)))
            continue
        bad.append((n, "the unescaped `{}` is used in `{}`".format(
            n.id, src(p)[:50])))
    return bad, n_uses
