"""Analyses for the command-line tools: never-returning calls, file-effect
summaries, three-valued exit-state abstract interpretation and the
clean/written typestate of a tool's main()."""
from __future__ import annotations

import ast
from typing import Any, Dict, Iterable, List, Optional, Set, Tuple

from .flow import Flow, Outcome
from .model import (FuncInfo, Program, resolve_call, src, types_of,
                    walk_local)

CLI_FILES = [
    "yamlpath/commands/yaml_get.py", "yamlpath/commands/yaml_set.py",
    "yamlpath/commands/yaml_merge.py", "yamlpath/commands/yaml_diff.py",
    "yamlpath/commands/yaml_validate.py", "yamlpath/commands/yaml_paths.py",
    "yamlpath/commands/eyaml_rotate_keys.py",
]

WRITE_CALLS = {"copy2", "copyfile", "copy", "remove", "unlink", "rename",
               "move", "rmtree", "replace", "shutil.copy2", "os.remove",
               "os.unlink", "os.rename", "shutil.move", "shutil.copyfile"}


def open_mode(call: ast.Call) -> Optional[str]:
    if not (isinstance(call.func, ast.Name) and call.func.id == "open"):
        return None
    mode: Optional[ast.AST] = None
    if len(call.args) >= 2:
        mode = call.args[1]
    for kw in call.keywords:
        if kw.arg == "mode":
            mode = kw.value
    if mode is None:
        return "r"
    if isinstance(mode, ast.Constant) and isinstance(mode.value, str):
        return mode.value
    return "?"


def is_truncating_open(call: ast.Call) -> bool:
    m = open_mode(call)
    return m is not None and (m == "?" or any(c in m for c in "wax+"))


class CliModel:
    def __init__(self, prog: Program) -> None:
        self.prog = prog
        self.funcs: List[FuncInfo] = []
        for rel in CLI_FILES:
            self.funcs.extend(prog.funcs_in(rel))
        self.funcs.extend(
            f for f in prog.functions.values()
            if f.short.startswith("ConsolePrinter."))
        self.never_returns: Set[str] = set()
        self._compute_never_returns()
        self.writes: Set[str] = set()
        self.truncates: Set[str] = set()
        self.may_exit: Set[str] = set()
        self._compute_summaries()

    # -- never returns ---------------------------------------------------
    def call_never_returns(self, fi: FuncInfo, call: ast.Call) -> bool:
        fs = src(call.func)
        if fs in ("sys.exit", "exit", "os._exit", "quit"):
            return True
        for c in resolve_call(self.prog, fi, call):
            if c.qual in self.never_returns:
                return True
        return False

    def stmt_never_returns(self, fi: FuncInfo, stmt: ast.stmt) -> bool:
        if isinstance(stmt, ast.Expr) and isinstance(stmt.value, ast.Call):
            return self.call_never_returns(fi, stmt.value)
        return False

    def _compute_never_returns(self) -> None:
        changed = True
        while changed:
            changed = False
            for fi in self.funcs:
                if fi.qual in self.never_returns:
                    continue
                if self._always_exits(fi):
                    self.never_returns.add(fi.qual)
                    changed = True

    def _always_exits(self, fi: FuncInfo) -> bool:
        def transfer(stmt: ast.stmt, st: Any, flow: Flow) -> Iterable[Any]:
            if self.stmt_never_returns(fi, stmt):
                return []
            return [st]

        def branch(test: ast.AST, st: Any, flow: Flow):
            return [st], [st]
        flow = Flow(transfer, branch)
        try:
            out = flow.run(fi.node.body, ["s"])
        except OverflowError:
            return False
        if any(isinstance(n, (ast.Yield, ast.YieldFrom))
               for n in walk_local(fi.node)):
            return False
        return not out.fall and not out.returns and bool(out.exits)

    # -- file effects ----------------------------------------------------
    def _compute_summaries(self) -> None:
        direct_w: Set[str] = set()
        direct_t: Set[str] = set()
        direct_x: Set[str] = set()
        for fi in self.funcs:
            for n in walk_local(fi.node):
                if isinstance(n, ast.Call):
                    fs = src(n.func)
                    if fs in WRITE_CALLS or fs.split(".")[-1] in (
                            "copy2", "remove", "unlink"):
                        direct_w.add(fi.qual)
                    if is_truncating_open(n):
                        direct_w.add(fi.qual)
                        direct_t.add(fi.qual)
                    if self.call_never_returns(fi, n):
                        direct_x.add(fi.qual)
        self.writes, self.truncates, self.may_exit = \
            set(direct_w), set(direct_t), set(direct_x)
        changed = True
        while changed:
            changed = False
            for fi in self.funcs:
                for n in walk_local(fi.node):
                    if not isinstance(n, ast.Call):
                        continue
                    for c in resolve_call(self.prog, fi, n):
                        for summ in (self.writes, self.truncates,
                                     self.may_exit):
                            if c.qual in summ and fi.qual not in summ:
                                summ.add(fi.qual)
                                changed = True

    def calls_in(self, fi: FuncInfo, node: ast.AST) -> List[ast.Call]:
        return [n for n in walk_local(node) if isinstance(n, ast.Call)]

    def stmt_writes(self, fi: FuncInfo, stmt: ast.AST) -> Optional[ast.Call]:
        for n in self.calls_in(fi, stmt):
            fs = src(n.func)
            if fs in WRITE_CALLS or fs.split(".")[-1] in (
                    "copy2", "remove", "unlink") or is_truncating_open(n):
                return n
            for c in resolve_call(self.prog, fi, n):
                if c.qual in self.writes:
                    return n
        return None

    def stmt_may_exit(self, fi: FuncInfo, stmt: ast.AST) -> Optional[ast.Call]:
        for n in self.calls_in(fi, stmt):
            if self.call_never_returns(fi, n):
                return n
            for c in resolve_call(self.prog, fi, n):
                if c.qual in self.may_exit:
                    return n
        return None


# --------------------------------------------------------------------------
# exit-state abstract interpretation
# --------------------------------------------------------------------------
Z, N, E, U = "zero", "nonzero", "either", "unset"


def state_vars(fi: FuncInfo) -> List[str]:
    """Integer status variables of a function: locals assigned an int
    literal that are returned, passed to sys.exit, or compared with 0."""
    cands: Set[str] = set()
    for n in walk_local(fi.node):
        if isinstance(n, (ast.Assign, ast.AnnAssign)):
            tgt = n.targets[0] if isinstance(n, ast.Assign) else n.target
            if isinstance(tgt, ast.Name) and \
                    isinstance(n.value, ast.Constant) and \
                    isinstance(n.value.value, int) and \
                    not isinstance(n.value.value, bool):
                cands.add(tgt.id)
    used: Set[str] = set()
    for n in walk_local(fi.node):
        if isinstance(n, ast.Return) and isinstance(n.value, ast.Name):
            used.add(n.value.id)
        elif isinstance(n, ast.Call) and src(n.func) in ("sys.exit", "exit") \
                and n.args and isinstance(n.args[0], ast.Name):
            used.add(n.args[0].id)
    core = cands & used
    # per-iteration temporaries merged into a core variable
    temps: Set[str] = set()
    for n in walk_local(fi.node):
        if isinstance(n, ast.Assign) and len(n.targets) == 1 and \
                isinstance(n.targets[0], ast.Name) and \
                n.targets[0].id in core and isinstance(n.value, ast.Name) \
                and _assigned_from_call(fi, n.value.id):
            temps.add(n.value.id)
    return sorted(core | temps)


def _assigned_from_call(fi: FuncInfo, name: str) -> bool:
    for n in walk_local(fi.node):
        if isinstance(n, ast.Assign) and len(n.targets) == 1 and \
                isinstance(n.targets[0], ast.Name) and \
                n.targets[0].id == name and isinstance(n.value, ast.Call):
            return True
    return False


def sticky_vars(fi: FuncInfo) -> Set[str]:
    """Status variables that directly reach sys.exit()/return (as opposed to
    per-iteration temporaries that are merged into them)."""
    out: Set[str] = set()
    for n in walk_local(fi.node):
        if isinstance(n, ast.Return) and isinstance(n.value, ast.Name):
            out.add(n.value.id)
        elif isinstance(n, ast.Call) and src(n.func) in ("sys.exit", "exit") \
                and n.args and isinstance(n.args[0], ast.Name):
            out.add(n.args[0].id)
    return out


def _assigned_from_call(fi: FuncInfo, name: str) -> bool:
    for n in walk_local(fi.node):
        if isinstance(n, ast.Assign) and len(n.targets) == 1 and \
                isinstance(n.targets[0], ast.Name) and \
                n.targets[0].id == name and isinstance(n.value, ast.Call):
            return True
    return False


class ExitAnalysis:
    """Three-valued abstract interpretation of a function's status
    variables plus a clean/written typestate."""

    def __init__(self, model: CliModel, fi: FuncInfo,
                 stateful: Set[str]) -> None:
        self.model = model
        self.fi = fi
        self.vars = state_vars(fi)
        self.sticky = sticky_vars(fi)
        self.stateful = stateful     # quals of functions returning a status
        self.violations: List[Tuple[ast.AST, str, str]] = []
        self.assign_ok: List[Tuple[ast.AST, str]] = []
        self.exits: List[Tuple[ast.AST, str, bool]] = []   # node, abs, written
        self.writes: List[Tuple[ast.AST, Dict[str, str]]] = []
        self.returns: Set[str] = set()
        self._seen: Set[Tuple[int, str]] = set()

    # state = (written, ((var, abs), ...))
    def _get(self, st: Any, v: str) -> str:
        return dict(st[1]).get(v, U)

    def _set(self, st: Any, v: str, a: str) -> Any:
        d = dict(st[1])
        d[v] = a
        return (st[0], tuple(sorted(d.items())))

    def abs_expr(self, e: Optional[ast.AST], st: Any) -> str:
        if e is None:
            return Z
        if isinstance(e, ast.Constant):
            if e.value is None:
                return Z
            if isinstance(e.value, bool):
                return N if e.value else Z
            if isinstance(e.value, int):
                return Z if e.value == 0 else N
            return E
        if isinstance(e, ast.Name) and e.id in self.vars:
            a = self._get(st, e.id)
            return E if a == U else a
        if isinstance(e, ast.IfExp):
            a, b = self.abs_expr(e.body, st), self.abs_expr(e.orelse, st)
            return a if a == b else E
        return E

    def transfer(self, stmt: ast.stmt, st: Any, flow: Flow) -> Iterable[Any]:
        fi = self.fi
        w = self.model.stmt_writes(fi, stmt)
        # exits first: sys.exit(x) / critical(...)
        for call in self.model.calls_in(fi, stmt):
            if self.model.call_never_returns(fi, call):
                fs = src(call.func)
                if fs in ("sys.exit", "exit"):
                    code = self.abs_expr(call.args[0] if call.args else None,
                                         st)
                else:
                    # critical(message, exit_code=1)
                    arg = call.args[1] if len(call.args) > 1 else None
                    for kw in call.keywords:
                        if kw.arg == "exit_code":
                            arg = kw.value
                    code = self.abs_expr(arg, st) if arg is not None else N
                self.exits.append((call, code, st[0]))
                return []
        if w is not None:
            self.writes.append((w, dict(st[1])))
            st = (True, st[1])
        x = self.model.stmt_may_exit(fi, stmt)
        if x is not None and st[0] and w is None:
            self.exits.append((x, E, True))
        tgt: Optional[str] = None
        val: Optional[ast.AST] = None
        if isinstance(stmt, ast.Assign) and len(stmt.targets) == 1 and \
                isinstance(stmt.targets[0], ast.Name):
            tgt, val = stmt.targets[0].id, stmt.value
        elif isinstance(stmt, ast.AnnAssign) and \
                isinstance(stmt.target, ast.Name):
            tgt, val = stmt.target.id, stmt.value
        if tgt in self.vars and val is not None:
            cur = self._get(st, tgt)
            new = self.abs_expr(val, st)
            if isinstance(val, ast.Call):
                new = E
            key = (id(stmt), cur)
            if new in (Z, E) and cur in (N, E) and tgt in self.sticky:
                if key not in self._seen:
                    self._seen.add(key)
                    self.violations.append((
                        stmt, tgt,
                        "assignment `{}` may store 0 while `{}` may already "
                        "hold a failure code (abstract value {})".format(
                            src(stmt)[:80], tgt, cur)))
            elif key not in self._seen:
                self._seen.add(key)
                self.assign_ok.append((stmt, "{} <- {} in state {}".format(
                    tgt, new, cur)))
            st = self._set(st, tgt, new)
        if isinstance(stmt, ast.Return):
            self.returns.add(self.abs_expr(stmt.value, st)
                             if not isinstance(stmt.value, ast.Tuple) else E)
        return [st]

    def branch(self, test: ast.AST, st: Any, flow: Flow):
        return self._cond(test, [st])

    def _cond(self, test: ast.AST, states: List[Any]):
        if isinstance(test, ast.UnaryOp) and isinstance(test.op, ast.Not):
            t, f = self._cond(test.operand, states)
            return f, t
        if isinstance(test, ast.BoolOp):
            if isinstance(test.op, ast.And):
                cur, falses = states, []
                for v in test.values:
                    t, f = self._cond(v, cur)
                    falses.extend(f)
                    cur = t
                return cur, falses
            cur, trues = states, []
            for v in test.values:
                t, f = self._cond(v, cur)
                trues.extend(t)
                cur = f
            return trues, cur
        ts, fs = [], []
        for st in states:
            t, f = self._atom(test, st)
            ts.extend(t)
            fs.extend(f)
        return ts, fs

    def _atom(self, test: ast.AST, st: Any):
        if isinstance(test, ast.Compare) and len(test.ops) == 1:
            l, r, op = test.left, test.comparators[0], test.ops[0]
            var = None
            if isinstance(l, ast.Name) and l.id in self.vars and \
                    isinstance(r, ast.Constant) and r.value == 0:
                var = l.id
            elif isinstance(r, ast.Name) and r.id in self.vars and \
                    isinstance(l, ast.Constant) and l.value == 0:
                var = r.id
            if var is not None and isinstance(
                    op, (ast.Eq, ast.NotEq, ast.Gt, ast.Lt)):
                cur = self._get(st, var)
                eq = isinstance(op, ast.Eq)
                zs = [] if cur == N else [self._set(st, var, Z)]
                ns = [] if cur == Z else [self._set(st, var, N)]
                return (zs, ns) if eq else (ns, zs)
        if isinstance(test, ast.Name) and test.id in self.vars:
            cur = self._get(st, test.id)
            zs = [] if cur == N else [self._set(st, test.id, Z)]
            ns = [] if cur == Z else [self._set(st, test.id, N)]
            return ns, zs
        return [st], [st]

    def run(self) -> Outcome:
        init = (False, tuple((v, U) for v in self.vars))
        flow = Flow(self.transfer, self.branch)
        return flow.run(self.fi.node.body, [init])
