"""Borrowed rules: a clause owned by one property that is also a necessary
condition of another.

Several properties run through the same code (the operator table of
``Searches.search_matches`` serves C01, C07, C12 and C13; the coordinates
built by the evaluator serve C02, C04 and C13; the exit-state plumbing of
the tools serves C11, C16, C17 and C18).  A rule that decides a clause about
such shared code is owned by one property, but violating it breaks the
others as well.  ``rules/borrow_table.json`` lists, per property P, the
rule instances (owner property, rule id, function) for which an independent
seeded change has *demonstrated* that a violation there breaks P; P's check
re-runs the owner's rules on the current tree and reports a finding of such
an instance as its own.  Nothing else of the owner's verdict is taken over:
a finding of another rule, or of the same rule in a function not listed, is
left to the owner's check.
"""
from __future__ import annotations

import importlib
import json
import os
from typing import Any, Dict

from .model import AnalysisError
from .report import Check

_TABLE = os.path.join(os.path.dirname(os.path.dirname(
    os.path.abspath(__file__))), "rules", "borrow_table.json")


def load_table() -> Dict[str, Any]:
    if not os.path.exists(_TABLE):
        return {}
    with open(_TABLE, "r", encoding="utf-8") as fh:
        return json.load(fh)


def run_borrowed(chk: Check) -> None:
    """Run the owners' rules for ``chk.prop`` and adopt the listed
    instances."""
    wanted = load_table().get(chk.prop, {})
    for owner in sorted(wanted):
        entries = wanted[owner]
        sub = Check(owner, chk.prog, chk.tier)
        try:
            mod = importlib.import_module("rules." + owner.lower())
            mod.run(sub, borrowed=True) if _accepts_flag(mod.run) \
                else mod.run(sub)
        except AnalysisError as ex:
            # the owner's own check reports this; the borrower decides its
            # own rules and says what it could not adopt
            chk.notes.append("borrowed rules of {} not evaluated: {}".format(
                owner, ex))
            continue
        chk.functions_analysed |= sub.functions_analysed
        for rid, ent in sorted(entries.items()):
            if rid not in sub.rules:
                chk.notes.append("borrowed rule {} is not registered by {} "
                                 "any more".format(rid, owner))
                continue
            bid = rid
            text = "[borrowed from {}; shown to be necessary for {} by {}] {}"\
                .format(owner, chk.prop, ", ".join(ent["seeds"]),
                        sub.rules[rid]["text"])
            chk.rule(bid, text)
            funcs = set(ent["functions"])
            chk.count(bid, sub.rules[rid]["instances"])
            for f in sub.findings:
                if f.rule == rid and f.func in funcs:
                    chk.rules[bid]["violations"] += 1
                    chk.obligations += 1
                    chk.findings.append(f)
            chk.obligations += sub.rules[rid]["instances"]
            chk.discharged += max(0, sub.rules[rid]["instances"] - sum(
                1 for f in sub.findings if f.rule == rid))


def _accepts_flag(fn: Any) -> bool:
    try:
        return "borrowed" in fn.__code__.co_varnames[:fn.__code__.co_argcount]
    except AttributeError:
        return False
