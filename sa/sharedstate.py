"""State that outlives the call or the instance it belongs to.

Two shapes, both legal Python and both invisible to a test that makes one
call on one fresh object:

* a *mutable default argument* (`def f(x, seen=[])`): the list is created
  once, at definition time, and every call that omits the argument shares
  it -- whatever one call records is still there for the next;
* a *class-level mutable attribute* (`class C: items = []`) that instances
  fill through `self.items.append(...)` without ever re-binding it in
  `__init__`: all instances share one container.

A parameter / attribute counts only when the container is actually changed
or read as an accumulator (appended to, indexed-stored, handed on), so a
constant default such as `choices=()` or a class-level tuple of names is
not reported.
"""
from __future__ import annotations

import ast
from typing import List, Tuple

from .model import ClassInfo, FuncInfo, src, walk_local

_MUTATORS = {"append", "extend", "insert", "add", "update", "setdefault",
             "pop", "remove", "discard", "clear", "popitem", "sort",
             "reverse"}


def _is_mutable_literal(e: ast.AST) -> bool:
    if isinstance(e, (ast.List, ast.Dict, ast.Set, ast.ListComp, ast.DictComp,
                      ast.SetComp)):
        return True
    if isinstance(e, ast.Call) and src(e.func) in (
            "list", "dict", "set", "OrderedDict", "CommentedSeq",
            "CommentedMap", "CommentedSet", "defaultdict", "deque"):
        return True
    return False


def _used_as_state(fn: ast.AST, name: str) -> bool:
    """The container named ``name`` is changed, or handed to someone who
    may change it / keep it."""
    for n in walk_local(fn):
        if isinstance(n, ast.Call) and isinstance(n.func, ast.Attribute) and \
                src(n.func.value) == name and n.func.attr in _MUTATORS:
            return True
        if isinstance(n, ast.Subscript) and src(n.value) == name and \
                isinstance(n.ctx, (ast.Store, ast.Del)):
            return True
        if isinstance(n, ast.AugAssign) and src(n.target) == name:
            return True
        if isinstance(n, ast.Call):
            for a in list(n.args) + [k.value for k in n.keywords]:
                if src(a) == name:
                    return True
        if isinstance(n, (ast.Return, ast.Yield)) and n.value is not None \
                and src(n.value) == name:
            return True
        if isinstance(n, ast.Assign) and src(n.value) == name and any(
                isinstance(t, ast.Attribute) for t in n.targets):
            return True
    return False


def mutable_defaults(fi: FuncInfo) -> List[Tuple[ast.arg, ast.AST]]:
    """(parameter, default) pairs whose default is a mutable container that
    the function changes or hands on."""
    out: List[Tuple[ast.arg, ast.AST]] = []
    a = fi.node.args
    pos = a.posonlyargs + a.args
    pairs = list(zip(pos[len(pos) - len(a.defaults):], a.defaults))
    pairs += [(p, d) for p, d in zip(a.kwonlyargs, a.kw_defaults)
              if d is not None]
    for p, d in pairs:
        if _is_mutable_literal(d) and _used_as_state(fi.node, p.arg):
            out.append((p, d))
    return out


def shared_class_containers(ci: ClassInfo) -> List[Tuple[ast.stmt, str]]:
    """Class-body assignments of a mutable container that methods change
    through `self.<name>` and that `__init__` never re-binds."""
    out: List[Tuple[ast.stmt, str]] = []
    for st in ci.node.body:
        tgt = val = None
        if isinstance(st, ast.Assign) and len(st.targets) == 1:
            tgt, val = st.targets[0], st.value
        elif isinstance(st, ast.AnnAssign) and st.value is not None:
            tgt, val = st.target, st.value
        if not (isinstance(tgt, ast.Name) and val is not None and
                _is_mutable_literal(val)):
            continue
        name = tgt.id
        rebinds_in_init = False
        used = False
        for m in ci.methods.values():
            for n in walk_local(m.node):
                if isinstance(n, (ast.Assign, ast.AnnAssign)):
                    ts = n.targets if isinstance(n, ast.Assign) \
                        else [n.target]
                    if m.node.name == "__init__" and any(
                            src(t) == "self." + name for t in ts):
                        rebinds_in_init = True
            for pref in ("self.", "cls.", ci.name + "."):
                if _used_as_state(m.node, pref + name):
                    used = True
        if used and not rebinds_in_init:
            out.append((st, name))
    return out
