"""Guard facts: conditions known to hold at an AST node, from code shape.

``facts_at(node)`` returns atomic facts ``(expr, polarity)`` collected from

* enclosing ``if``/``elif``/``else`` (all earlier ``elif`` tests negated),
  conditional expressions, short-circuit position in ``and``/``or``,
  comprehension filters, ``while`` tests, ``assert``;
* earlier early-exit guards in the enclosing blocks
  (``if c: return|raise|continue|break`` => ``not c`` afterwards);
* loop headers (``for i, e in enumerate(x)``, ``for i in range(..)``),
  reported as pseudo facts.

A fact is *killed* when a name it mentions is re-assigned (or its value is
mutated through a known mutator) between the guard and the use.
"""
from __future__ import annotations

import ast
from typing import Dict, Iterable, List, Optional, Set, Tuple

from .model import (FUNC_TYPES, ancestors, enclosing_stmt, parent, src,
                    walk_local)

MUTATORS = {
    "append", "insert", "pop", "remove", "clear", "extend", "update", "add",
    "discard", "sort", "reverse", "move_to_end", "popitem", "setdefault",
    "appendleft", "popleft", "extendleft", "rotate",
    "yaml_set_anchor", "yaml_set_tag", "add_yaml_merge",
}

NEVER_RETURNS = {"sys.exit", "exit", "os._exit"}
NEVER_RETURNS_ATTRS = {"critical"}  # ConsolePrinter.critical -> sys.exit


class Fact:
    __slots__ = ("expr", "pol", "origin", "kind")

    def __init__(self, expr: ast.AST, pol: bool, origin: ast.AST,
                 kind: str = "cond") -> None:
        self.expr = expr
        self.pol = pol
        self.origin = origin
        self.kind = kind

    def __repr__(self) -> str:
        if self.kind == "loop":
            e = self.expr
            return "<loop {} in {}>".format(
                src(getattr(e, "target", None)), src(getattr(e, "iter", None)))
        return "{}{}".format("" if self.pol else "not ", src(self.expr))


def names_in(expr: ast.AST) -> Set[str]:
    return {n.id for n in ast.walk(expr) if isinstance(n, ast.Name)}


def root_name(expr: ast.AST) -> Optional[str]:
    cur = expr
    while isinstance(cur, (ast.Attribute, ast.Subscript, ast.Call)):
        if isinstance(cur, ast.Call):
            cur = cur.func
        else:
            cur = cur.value
    if isinstance(cur, ast.Name):
        return cur.id
    return None


def assigned_names(node: ast.AST, mutation: bool = True) -> Set[str]:
    """Names (re)bound or mutated inside ``node`` (nested defs excluded)."""
    out: Set[str] = set()
    for n in walk_local(node):
        if isinstance(n, ast.Name) and isinstance(n.ctx, (ast.Store, ast.Del)):
            out.add(n.id)
        elif mutation and isinstance(n, (ast.Subscript, ast.Attribute)) and \
                isinstance(n.ctx, (ast.Store, ast.Del)):
            r = root_name(n)
            if r:
                out.add(r)
        elif mutation and isinstance(n, ast.Call) and \
                isinstance(n.func, ast.Attribute) and \
                n.func.attr in MUTATORS:
            r = root_name(n.func.value)
            if r:
                out.add(r)
    return out


def terminates(stmts: List[ast.stmt]) -> bool:
    """Does the block always leave (return/raise/continue/break/exit)?"""
    if not stmts:
        return False
    last = stmts[-1]
    if isinstance(last, (ast.Return, ast.Raise, ast.Continue, ast.Break)):
        return True
    if isinstance(last, ast.Expr) and isinstance(last.value, ast.Call):
        f = last.value.func
        if src(f) in NEVER_RETURNS:
            return True
        if isinstance(f, ast.Attribute) and f.attr in NEVER_RETURNS_ATTRS:
            return True
    if isinstance(last, ast.If) and last.orelse:
        return terminates(last.body) and terminates(last.orelse)
    return False


def atoms(expr: ast.AST, pol: bool, origin: ast.AST) -> List[Fact]:
    """Decompose a condition with polarity into atomic facts."""
    if isinstance(expr, ast.UnaryOp) and isinstance(expr.op, ast.Not):
        return atoms(expr.operand, not pol, origin)
    if isinstance(expr, ast.BoolOp):
        if isinstance(expr.op, ast.And) and pol:
            out: List[Fact] = []
            for v in expr.values:
                out.extend(atoms(v, True, origin))
            return out
        if isinstance(expr.op, ast.Or) and not pol:
            out = []
            for v in expr.values:
                out.extend(atoms(v, False, origin))
            return out
        return [Fact(expr, pol, origin)]
    if isinstance(expr, ast.Compare) and len(expr.ops) > 1 and pol:
        out = []
        left = expr.left
        for op, right in zip(expr.ops, expr.comparators):
            out.append(Fact(ast.Compare(left=left, ops=[op],
                                        comparators=[right]), True, origin))
            left = right
        return out
    return [Fact(expr, pol, origin)]


def _block_of(stmt: ast.stmt) -> Tuple[Optional[List[ast.stmt]], ast.AST]:
    par = parent(stmt)
    if par is None:
        return None, stmt
    for field in ("body", "orelse", "finalbody"):
        blk = getattr(par, field, None)
        if isinstance(blk, list) and stmt in blk:
            return blk, par
    if isinstance(par, ast.Try):
        for h in par.handlers:
            if stmt in h.body:
                return h.body, h
    return None, par


def facts_at(node: ast.AST) -> List[Fact]:
    """Atomic facts known to hold when ``node`` is evaluated."""
    raw: List[Tuple[Fact, List[ast.AST]]] = []  # fact, path nodes after guard
    # -- walk up the ancestors ------------------------------------------
    child: ast.AST = node
    path: List[ast.AST] = [node]
    for anc in ancestors(node):
        # early-exit guards among the preceding siblings of ``child``
        if isinstance(child, ast.stmt):
            blk, _ = _block_of(child)
            if blk is not None:
                i = blk.index(child)
                for k, prev in enumerate(blk[:i]):
                    between = blk[k + 1:i]
                    pfacts: List[Fact] = []
                    if isinstance(prev, ast.If):
                        if terminates(prev.body) and not prev.orelse:
                            pfacts = atoms(prev.test, False, prev)
                        elif prev.orelse and terminates(prev.orelse) \
                                and not terminates(prev.body):
                            pfacts = atoms(prev.test, True, prev)
                        elif prev.orelse and terminates(prev.body) \
                                and not terminates(prev.orelse):
                            pfacts = atoms(prev.test, False, prev)
                    elif isinstance(prev, ast.Assert):
                        pfacts = atoms(prev.test, True, prev)
                    for f in pfacts:
                        # If a branch that falls through re-assigns, kill.
                        extra: List[ast.AST] = list(between)
                        if isinstance(prev, ast.If):
                            extra = [prev] + extra
                        raw.append((f, extra + list(path)))
        if isinstance(anc, FUNC_TYPES + (ast.Lambda, ast.ClassDef)):
            break
        if isinstance(anc, ast.If):
            if child in anc.body:
                for f in atoms(anc.test, True, anc):
                    raw.append((f, list(path)))
            elif child in anc.orelse:
                for f in atoms(anc.test, False, anc):
                    raw.append((f, list(path)))
        elif isinstance(anc, ast.IfExp):
            if child is anc.body:
                for f in atoms(anc.test, True, anc):
                    raw.append((f, list(path)))
            elif child is anc.orelse:
                for f in atoms(anc.test, False, anc):
                    raw.append((f, list(path)))
        elif isinstance(anc, ast.BoolOp):
            idx = anc.values.index(child) if child in anc.values else -1
            for prev in anc.values[:max(idx, 0)]:
                pol = isinstance(anc.op, ast.And)
                for f in atoms(prev, pol, anc):
                    raw.append((f, list(path)))
        elif isinstance(anc, ast.While):
            if child in anc.body:
                for f in atoms(anc.test, True, anc):
                    raw.append((f, list(path)))
        elif isinstance(anc, (ast.ListComp, ast.SetComp, ast.GeneratorExp,
                              ast.DictComp)):
            # filters guard the element expression
            is_elt = child is getattr(anc, "elt", None) or \
                child is getattr(anc, "key", None) or \
                child is getattr(anc, "value", None)
            if is_elt:
                for gen in anc.generators:
                    for cond in gen.ifs:
                        for f in atoms(cond, True, anc):
                            raw.append((f, list(path)))
                    raw.append((Fact(gen, True, anc, "loop"), list(path)))
        elif isinstance(anc, ast.comprehension):
            if child in anc.ifs:
                i = anc.ifs.index(child)
                for cond in anc.ifs[:i]:
                    for f in atoms(cond, True, anc):
                        raw.append((f, list(path)))
                raw.append((Fact(anc, True, anc, "loop"), list(path)))
        elif isinstance(anc, (ast.For, ast.AsyncFor)):
            if child in anc.body:
                raw.append((Fact(anc, True, anc, "loop"), list(path)))
        elif isinstance(anc, ast.Try):
            pass
        path.append(anc)
        child = anc
    # -- kill facts whose variables are re-assigned on the way ----------
    out: List[Fact] = []
    for fact, after in raw:
        if fact.kind == "loop":
            out.append(fact)
            continue
        if _killed(fact, after, node):
            continue
        out.append(fact)
    return out


def _killed(fact: Fact, after: List[ast.AST], use: ast.AST) -> bool:
    """Is a name of the fact re-assigned on the way from guard to use?"""
    vars_ = names_in(fact.expr)
    if not vars_:
        return False
    origin = fact.origin
    if not isinstance(origin, ast.stmt):
        return False   # expression-level guard: nothing in between
    cur: ast.AST = use if isinstance(use, ast.stmt) else enclosing_stmt(use)
    while True:
        blk, par = _block_of(cur)  # type: ignore[arg-type]
        if blk is None:
            return False
        i = blk.index(cur)  # type: ignore[arg-type]
        if origin in blk:
            lo = blk.index(origin)  # type: ignore[arg-type]
            # early-exit guard: branches of the guard that fall through
            if isinstance(origin, ast.If):
                for br in (origin.body, origin.orelse):
                    if br and not terminates(br):
                        for s in br:
                            if assigned_names(s) & vars_:
                                return True
            for prev in blk[lo + 1:i]:
                if assigned_names(prev) & vars_:
                    return True
            return False
        for prev in blk[:i]:
            if assigned_names(prev) & vars_:
                return True
        if par is origin:
            if isinstance(origin, ast.While):
                # facts from the loop test hold at the top of each iteration
                return False
            return False
        if isinstance(par, (ast.For, ast.AsyncFor, ast.While)):
            # guard established outside this loop
            if assigned_names(par) & vars_:
                return True
        if isinstance(par, ast.ExceptHandler):
            par = parent(par)  # the Try
        if par is None or isinstance(par, FUNC_TYPES) or \
                not isinstance(par, ast.stmt):
            return False
        cur = par


# --------------------------------------------------------------------------
# Linear integer normal forms:  sum(coef * atom) + const
# --------------------------------------------------------------------------
Lin = Tuple[Tuple[Tuple[str, int], ...], int]


def linear(expr: ast.AST) -> Optional[Dict[str, int]]:
    """Return {atom_src: coef, '': const} or None if not linear."""
    if isinstance(expr, ast.Constant):
        if isinstance(expr.value, bool) or not isinstance(expr.value, int):
            return None
        return {"": expr.value}
    if isinstance(expr, ast.UnaryOp) and isinstance(expr.op, ast.USub):
        inner = linear(expr.operand)
        if inner is None:
            return None
        return {k: -v for k, v in inner.items()}
    if isinstance(expr, ast.BinOp) and isinstance(expr.op, (ast.Add, ast.Sub)):
        left, right = linear(expr.left), linear(expr.right)
        if left is None or right is None:
            return None
        out = dict(left)
        sign = 1 if isinstance(expr.op, ast.Add) else -1
        for k, v in right.items():
            out[k] = out.get(k, 0) + sign * v
        return {k: v for k, v in out.items() if v != 0 or k == ""}
    if isinstance(expr, ast.BinOp) and isinstance(expr.op, ast.Mult):
        left, right = linear(expr.left), linear(expr.right)
        if left is None or right is None:
            return None
        if set(left) <= {""}:
            c = left.get("", 0)
            return {k: c * v for k, v in right.items()}
        if set(right) <= {""}:
            c = right.get("", 0)
            return {k: c * v for k, v in left.items()}
        return None
    if isinstance(expr, (ast.Name, ast.Attribute, ast.Subscript)):
        return {src(expr): 1}
    if isinstance(expr, ast.Call) and isinstance(expr.func, ast.Name) and \
            expr.func.id == "len" and len(expr.args) == 1:
        return {"len(" + src(expr.args[0]) + ")": 1}
    return None


def _sub(a: Dict[str, int], b: Dict[str, int]) -> Dict[str, int]:
    out = dict(a)
    for k, v in b.items():
        out[k] = out.get(k, 0) - v
    return {k: v for k, v in out.items() if v != 0 or k == ""}


def fact_ge0(fact: Fact) -> List[Dict[str, int]]:
    """Linear forms ``e`` such that the fact implies ``e >= 0`` (integers).
    Truthiness of a bare sequence name gives ``len(x) - 1 >= 0``."""
    e = fact.expr
    out: List[Dict[str, int]] = []
    if isinstance(e, ast.Compare) and len(e.ops) == 1:
        lhs, rhs = linear(e.left), linear(e.comparators[0])
        if lhs is None or rhs is None:
            return out
        op = e.ops[0]
        d = _sub(lhs, rhs)          # lhs - rhs
        nd = {k: -v for k, v in d.items()}
        one = {"": 1}

        def minus1(x: Dict[str, int]) -> Dict[str, int]:
            return _sub(x, one)
        table = {
            (ast.Gt, True): [minus1(d)], (ast.GtE, True): [d],
            (ast.Lt, True): [minus1(nd)], (ast.LtE, True): [nd],
            (ast.Eq, True): [d, nd],
            (ast.Gt, False): [nd], (ast.GtE, False): [minus1(nd)],
            (ast.Lt, False): [d], (ast.LtE, False): [minus1(d)],
            (ast.NotEq, False): [d, nd],
        }
        return table.get((type(op), fact.pol), [])
    if fact.pol and isinstance(e, (ast.Name, ast.Attribute)):
        # truthy container/str => len >= 1 (also true for non-zero ints, the
        # caller decides whether the operand is a sized value)
        return [{"len(" + src(e) + ")": 1, "": -1}]
    return out


def implies_ge0(facts: Iterable[Fact], query: Dict[str, int]) -> Optional[Fact]:
    """Is ``query >= 0`` implied by a single fact?  Returns the fact."""
    q = {k: v for k, v in query.items() if v != 0 or k == ""}
    for f in facts:
        if f.kind != "cond":
            continue
        for form in fact_ge0(f):
            diff = _sub(q, form)
            if set(diff) <= {""} and diff.get("", 0) >= 0:
                return f
    return None


def loop_facts(facts: Iterable[Fact]) -> List[ast.AST]:
    return [f.expr for f in facts if f.kind == "loop"]
