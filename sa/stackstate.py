"""Depth typestate for a hand-written parser's demarcation stack.

Subjects are found by role: a *stack* is a function-local list that is both
pushed (``.append``) and popped (``.pop()``) in the function; its *depth
mirror* is a local integer that is assigned ``len(stack)``; *flags* are
function locals that only ever hold ``True``/``False``.

Abstract state: (lower bound of len(stack) in {0,1,2}, exact?, delta =
mirror - len(stack) or None, flag valuation).  The interpreter runs the
whole function body with path-sensitive state sets; every ``stack.pop()``
and ``stack[-1]``/``stack[0]`` must be reached only in states with lower
bound >= 1.
"""
from __future__ import annotations

import ast
from typing import Dict, FrozenSet, Iterable, List, Optional, Set, Tuple

from .flow import Flow
from .model import FuncInfo, src, walk_local

# state = (lo, exact, delta, flags) ; lo in 0..2 (2 means >= 2);
# exact=True means len == lo (only for lo in 0,1); delta int or None;
# flags = tuple of (name, value) with value in (True, False, None)
StackState = Tuple[int, bool, Optional[int], Tuple[Tuple[str, Optional[bool]], ...]]


def find_stacks(fi: FuncInfo) -> List[Tuple[str, Optional[str]]]:
    """(stack variable, mirror variable or None) pairs of a function."""
    pushed: Set[str] = set()
    popped: Set[str] = set()
    for n in walk_local(fi.node):
        if isinstance(n, ast.Call) and isinstance(n.func, ast.Attribute) and \
                isinstance(n.func.value, ast.Name):
            if n.func.attr == "append":
                pushed.add(n.func.value.id)
            elif n.func.attr == "pop" and not n.args:
                popped.add(n.func.value.id)
    out: List[Tuple[str, Optional[str]]] = []
    for name in sorted(pushed & popped):
        if name in fi.params():
            continue
        mirror = None
        for n in walk_local(fi.node):
            if isinstance(n, (ast.Assign, ast.AnnAssign)):
                tgt = n.targets[0] if isinstance(n, ast.Assign) else n.target
                if isinstance(tgt, ast.Name) and n.value is not None and \
                        src(n.value) == "len({})".format(name):
                    mirror = tgt.id
        out.append((name, mirror))
    return out


def bool_flags(fi: FuncInfo) -> Set[str]:
    """Locals whose every assignment is the constant True or False."""
    vals: Dict[str, bool] = {}
    for n in walk_local(fi.node):
        tgts: List[ast.AST] = []
        val: Optional[ast.AST] = None
        if isinstance(n, ast.Assign):
            tgts, val = list(n.targets), n.value
        elif isinstance(n, ast.AnnAssign):
            tgts, val = [n.target], n.value
        elif isinstance(n, ast.AugAssign):
            tgts, val = [n.target], None
        elif isinstance(n, (ast.For, ast.comprehension)):
            for nm in ast.walk(n.target):
                if isinstance(nm, ast.Name):
                    vals[nm.id] = False
            continue
        for t in tgts:
            for nm in ast.walk(t):
                if isinstance(nm, ast.Name) and isinstance(nm.ctx, ast.Store):
                    good = isinstance(val, ast.Constant) and \
                        isinstance(val.value, bool) and t is nm
                    vals[nm.id] = vals.get(nm.id, True) and good
    return {k for k, v in vals.items() if v and k not in fi.params()}


def _widen(delta: Optional[int]) -> Optional[int]:
    """Keep the mirror offset in a small range so that loops which push
    or pop without touching the mirror reach a fixpoint (offset unknown)."""
    if delta is not None and abs(delta) > 3:
        return None
    return delta


class StackAnalysis:
    def __init__(self, fi: FuncInfo, stack: str, mirror: Optional[str],
                 flags: Iterable[str]) -> None:
        self.fi = fi
        self.stack = stack
        self.mirror = mirror
        self.flags = sorted(flags)
        self.violations: List[Tuple[ast.AST, StackState, str]] = []
        self.checked: List[Tuple[ast.AST, str]] = []
        self._seen_bad: Set[Tuple[int, int]] = set()
        self._seen_ok: Set[int] = set()

    # -- state helpers -------------------------------------------------
    def _flag(self, st: StackState, name: str) -> Optional[bool]:
        return dict(st[3]).get(name)

    def _setflag(self, st: StackState, name: str,
                 val: Optional[bool]) -> StackState:
        d = dict(st[3])
        d[name] = val
        return (st[0], st[1], st[2], tuple(sorted(d.items())))

    def _push(self, st: StackState) -> StackState:
        lo, exact, delta, flags = st
        nlo = min(lo + 1, 2)
        nexact = exact and lo + 1 <= 1
        return (nlo, nexact, _widen(None if delta is None else delta - 1),
                flags)

    def _pop(self, st: StackState) -> StackState:
        lo, exact, delta, flags = st
        if lo == 0:
            nlo, nexact = 0, False
        elif lo == 1:
            nlo, nexact = 0, exact
        else:
            nlo, nexact = 1, False
        return (nlo, nexact, _widen(None if delta is None else delta + 1),
                flags)

    # -- access checks -------------------------------------------------
    def _check_expr(self, expr: ast.AST, st: StackState) -> StackState:
        """Check stack reads in ``expr`` and apply push/pop calls in
        evaluation order (left to right, good enough here)."""
        for n in _ordered(expr):
            if isinstance(n, ast.Subscript) and isinstance(n.value, ast.Name) \
                    and n.value.id == self.stack and \
                    isinstance(n.ctx, ast.Load) and \
                    not isinstance(n.slice, ast.Slice):
                self._require(n, st, "top/element read")
            elif isinstance(n, ast.Call) and \
                    isinstance(n.func, ast.Attribute) and \
                    isinstance(n.func.value, ast.Name) and \
                    n.func.value.id == self.stack:
                if n.func.attr == "pop" and not n.args:
                    self._require(n, st, "pop")
                    st = self._pop(st)
                elif n.func.attr == "append":
                    st = self._push(st)
                elif n.func.attr in ("clear",):
                    st = (0, True, None, st[3])
                elif n.func.attr in ("extend", "insert", "remove"):
                    st = (0, False, None, st[3])
        return st

    def _require(self, node: ast.AST, st: StackState, what: str) -> None:
        if st[0] >= 1:
            if id(node) not in self._seen_ok:
                self._seen_ok.add(id(node))
                self.checked.append((node, what))
        else:
            key = (id(node), 0)
            if key not in self._seen_bad:
                self._seen_bad.add(key)
                self.violations.append((node, st, what))

    # -- transfer ------------------------------------------------------
    def transfer(self, stmt: ast.stmt, st: StackState,
                 flow: Flow) -> Iterable[StackState]:
        # evaluate reads / pushes / pops inside the statement
        if isinstance(stmt, (ast.Assign, ast.AnnAssign, ast.AugAssign)):
            val = stmt.value
            if val is not None:
                st = self._check_expr(val, st)
            tgts = stmt.targets if isinstance(stmt, ast.Assign) \
                else [stmt.target]
            for t in tgts:
                if isinstance(t, ast.Name):
                    name = t.id
                    if name == self.stack:
                        # re-bound: only an empty list literal is understood
                        if isinstance(val, ast.List) and not val.elts:
                            st = (0, True, None, st[3])
                        else:
                            st = (0, False, None, st[3])
                    elif name == self.mirror:
                        if isinstance(stmt, ast.AugAssign):
                            d = _int_const(stmt.value)
                            if st[2] is not None and d is not None and \
                                    isinstance(stmt.op, (ast.Add, ast.Sub)):
                                nd = st[2] + (d if isinstance(stmt.op, ast.Add)
                                              else -d)
                                st = (st[0], st[1], nd, st[3])
                            else:
                                st = (st[0], st[1], None, st[3])
                        elif val is not None and \
                                src(val) == "len({})".format(self.stack):
                            st = (st[0], st[1], 0, st[3])
                        elif _int_const(val) == 0 and st[1] and st[0] == 0:
                            st = (st[0], st[1], 0, st[3])
                        else:
                            st = (st[0], st[1], None, st[3])
                    elif name in self.flags:
                        if isinstance(val, ast.Constant) and \
                                isinstance(val.value, bool):
                            st = self._setflag(st, name, val.value)
                        else:
                            st = self._setflag(st, name, None)
                else:
                    st = self._check_expr(t, st)
            return [st]
        for child in ast.iter_child_nodes(stmt):
            if isinstance(child, ast.expr):
                st = self._check_expr(child, st)
        return [st]

    def bind(self, target: ast.AST, it: ast.AST, st: StackState,
             flow: Flow) -> Iterable[StackState]:
        st = self._check_expr(it, st)
        for nm in ast.walk(target):
            if isinstance(nm, ast.Name):
                if nm.id == self.mirror:
                    st = (st[0], st[1], None, st[3])
                elif nm.id in self.flags:
                    st = self._setflag(st, nm.id, None)
        return [st]

    # -- branching -----------------------------------------------------
    def branch(self, test: ast.AST, st: StackState, flow: Flow
               ) -> Tuple[List[StackState], List[StackState]]:
        return self._cond(test, [st])

    def _cond(self, test: ast.AST, states: List[StackState]
              ) -> Tuple[List[StackState], List[StackState]]:
        if isinstance(test, ast.UnaryOp) and isinstance(test.op, ast.Not):
            t, f = self._cond(test.operand, states)
            return f, t
        if isinstance(test, ast.BoolOp):
            if isinstance(test.op, ast.And):
                cur = states
                falses: List[StackState] = []
                for v in test.values:
                    t, f = self._cond(v, cur)
                    falses.extend(f)
                    cur = t
                return cur, falses
            cur = states
            trues: List[StackState] = []
            for v in test.values:
                t, f = self._cond(v, cur)
                trues.extend(t)
                cur = f
            return trues, cur
        ts: List[StackState] = []
        fs: List[StackState] = []
        for st in states:
            st = self._check_expr(test, st)
            t, f = self._atom(test, st)
            ts.extend(t)
            fs.extend(f)
        return ts, fs

    def _atom(self, test: ast.AST, st: StackState
              ) -> Tuple[List[StackState], List[StackState]]:
        # flag tests
        if isinstance(test, ast.Name) and test.id in self.flags:
            v = self._flag(st, test.id)
            if v is True:
                return [st], []
            if v is False:
                return [], [st]
            return ([self._setflag(st, test.id, True)],
                    [self._setflag(st, test.id, False)])
        # truthiness of the stack itself
        if isinstance(test, ast.Name) and test.id == self.stack:
            return self._len_cmp(st, ">=", 1)
        # mirror / len(stack) compared with a constant
        if isinstance(test, ast.Compare) and len(test.ops) == 1:
            left, right, op = test.left, test.comparators[0], test.ops[0]
            lk, rk = self._lenlike(left, st), self._lenlike(right, st)
            lc, rc = _int_const(left), _int_const(right)
            opname = {ast.Gt: ">", ast.GtE: ">=", ast.Lt: "<", ast.LtE: "<=",
                      ast.Eq: "==", ast.NotEq: "!="}.get(type(op))
            if opname:
                if lk is not None and rc is not None:
                    return self._len_cmp(st, opname, rc - lk)
                if rk is not None and lc is not None:
                    flip = {">": "<", ">=": "<=", "<": ">", "<=": ">=",
                            "==": "==", "!=": "!="}[opname]
                    return self._len_cmp(st, flip, lc - rk)
        return [st], [st]

    def _lenlike(self, e: ast.AST, st: StackState) -> Optional[int]:
        """If ``e`` equals len(stack)+d return d."""
        if src(e) == "len({})".format(self.stack):
            return 0
        if isinstance(e, ast.Name) and e.id == self.mirror and \
                st[2] is not None:
            return st[2]
        return None

    def _len_cmp(self, st: StackState, op: str, c: int
                 ) -> Tuple[List[StackState], List[StackState]]:
        """Split on ``len(stack) op c`` using the abstract depth."""
        lo, exact, delta, flags = st
        # candidate concrete classes: 0, 1, 2(=2 or more)
        classes = []
        for k in (0, 1, 2):
            if k < lo:
                continue
            if exact and k != lo:
                continue
            classes.append(k)

        def holds(k: int) -> Optional[bool]:
            # k==2 stands for every n >= 2
            def cmp(n: int) -> bool:
                return {"<": n < c, "<=": n <= c, ">": n > c, ">=": n >= c,
                        "==": n == c, "!=": n != c}[op]
            if k < 2:
                return cmp(k)
            vals = {cmp(n) for n in range(2, max(c, 2) + 3)}
            return vals.pop() if len(vals) == 1 else None
        ts: List[StackState] = []
        fs: List[StackState] = []
        t_classes = [k for k in classes if holds(k) in (True, None)]
        f_classes = [k for k in classes if holds(k) in (False, None)]

        def mk(ks: List[int]) -> Optional[StackState]:
            if not ks:
                return None
            nlo = min(ks)
            nexact = len(ks) == 1 and ks[0] < 2
            return (nlo, nexact, delta, flags)
        t, f = mk(t_classes), mk(f_classes)
        return ([t] if t else []), ([f] if f else [])

    # -- driver --------------------------------------------------------
    def run(self) -> Flow:
        flags0 = tuple((n, None) for n in self.flags)
        init: StackState = (0, False, None, flags0)
        flow = Flow(self.transfer, self.branch, bind=self.bind)
        body = self.fi.node.body
        flow.run(body, [init])
        return flow


def _int_const(e: Optional[ast.AST]) -> Optional[int]:
    if isinstance(e, ast.Constant) and isinstance(e.value, int) and \
            not isinstance(e.value, bool):
        return e.value
    if isinstance(e, ast.UnaryOp) and isinstance(e.op, ast.USub):
        v = _int_const(e.operand)
        return None if v is None else -v
    return None


def _ordered(expr: ast.AST) -> List[ast.AST]:
    """Sub-expressions in (approximate) evaluation order: post-order."""
    out: List[ast.AST] = []

    def rec(n: ast.AST) -> None:
        if isinstance(n, (ast.Lambda, ast.FunctionDef)):
            return
        for c in ast.iter_child_nodes(n):
            rec(c)
        out.append(n)
    rec(expr)
    return out
