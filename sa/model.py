"""Program model: parse /repo/yamlpath, index symbols, resolve names and calls.

Nothing under /repo is imported or executed.  Everything is derived from
``ast.parse`` of the current working tree (or of source overlays, used by the
self-test to apply mutants without touching disk).
"""
from __future__ import annotations

import ast
import os
from typing import Dict, Iterable, Iterator, List, Optional, Set, Tuple

REPO = os.environ.get("VERIF_REPO", "/repo")
PKG = "yamlpath"
MODULE_FLOOR = 70  # 76 modules on the pinned tree


class AnalysisError(Exception):
    """The analysis itself cannot run (vanished anchor, parse error...)."""


# --------------------------------------------------------------------------
# AST helpers
# --------------------------------------------------------------------------
def set_parents(tree: ast.AST) -> None:
    for node in ast.walk(tree):
        for child in ast.iter_child_nodes(node):
            child._parent = node  # type: ignore[attr-defined]
    tree._parent = None  # type: ignore[attr-defined]


def parent(node: ast.AST) -> Optional[ast.AST]:
    return getattr(node, "_parent", None)


def ancestors(node: ast.AST) -> Iterator[ast.AST]:
    cur = parent(node)
    while cur is not None:
        yield cur
        cur = parent(cur)


FUNC_TYPES = (ast.FunctionDef, ast.AsyncFunctionDef)


def enclosing_function(node: ast.AST) -> Optional[ast.FunctionDef]:
    for anc in ancestors(node):
        if isinstance(anc, FUNC_TYPES):
            return anc  # type: ignore[return-value]
    return None


def enclosing_stmt(node: ast.AST) -> ast.stmt:
    cur: Optional[ast.AST] = node
    while cur is not None and not isinstance(cur, ast.stmt):
        cur = parent(cur)
    if cur is None:
        raise AnalysisError("expression without enclosing statement")
    return cur  # type: ignore[return-value]


def walk_local(node: ast.AST, include_root: bool = True) -> Iterator[ast.AST]:
    """Walk ``node`` without descending into nested function/class defs."""
    stack = [node]
    first = True
    while stack:
        cur = stack.pop()
        if not first and isinstance(
                cur, FUNC_TYPES + (ast.ClassDef, ast.Lambda)):
            continue
        if include_root or not first:
            yield cur
        first = False
        stack.extend(reversed(list(ast.iter_child_nodes(cur))))


def src(node: Optional[ast.AST]) -> str:
    if node is None:
        return "None"
    return ast.unparse(node)


def is_docstring(stmt: ast.stmt) -> bool:
    return (isinstance(stmt, ast.Expr)
            and isinstance(stmt.value, ast.Constant)
            and isinstance(stmt.value.value, str))


# --------------------------------------------------------------------------
# Program model
# --------------------------------------------------------------------------
class ModuleInfo:
    def __init__(self, relpath: str, modname: str, source: str) -> None:
        self.relpath = relpath
        self.modname = modname
        self.source = source
        self.tree = ast.parse(source, filename=relpath)
        # helpers outside the confirmed function inventory are inlined at
        # their call sites when that is exact (sa/normalize.py)
        from .normalize import normalise
        self.normalised: List[str] = normalise(relpath, self.tree)
        set_parents(self.tree)
        for node in ast.walk(self.tree):
            node._module = self  # type: ignore[attr-defined]
        self.is_package = relpath.endswith("__init__.py")
        # local name -> fully qualified dotted target
        self.imports: Dict[str, str] = {}
        self.defs: Dict[str, ast.AST] = {}

    @property
    def package(self) -> str:
        return self.modname if self.is_package else \
            self.modname.rsplit(".", 1)[0]


class FuncInfo:
    def __init__(self, qual: str, node: ast.FunctionDef, module: ModuleInfo,
                 cls: Optional["ClassInfo"], outer: Optional["FuncInfo"]):
        self.qual = qual
        self.node = node
        self.module = module
        self.cls = cls
        self.outer = outer
        self.kind = "function"
        self.is_static = False
        self.is_classmethod = False
        self.is_property = False
        self.is_setter = False
        for dec in node.decorator_list:
            d = src(dec)
            if d == "staticmethod":
                self.is_static = True
            elif d == "classmethod":
                self.is_classmethod = True
            elif d == "property":
                self.is_property = True
            elif d.endswith(".setter"):
                self.is_setter = True
        node._finfo = self  # type: ignore[attr-defined]

    @property
    def short(self) -> str:
        """Qualified name without the module path."""
        return self.qual[len(self.module.modname) + 1:]

    @property
    def where(self) -> str:
        return "{}:{}".format(self.module.relpath, self.node.lineno)

    def params(self) -> List[str]:
        a = self.node.args
        names = [x.arg for x in a.posonlyargs + a.args]
        return names

    def __repr__(self) -> str:
        return "<Func {}>".format(self.qual)


class ClassInfo:
    def __init__(self, qual: str, node: ast.ClassDef, module: ModuleInfo):
        self.qual = qual
        self.node = node
        self.module = module
        self.name = node.name
        self.base_exprs = [src(b) for b in node.bases]
        self.bases: List[str] = []  # resolved quals (program or external)
        self.methods: Dict[str, FuncInfo] = {}
        self.setters: Dict[str, FuncInfo] = {}
        self.attr_types: Dict[str, str] = {}  # self.x annotations

    def __repr__(self) -> str:
        return "<Class {}>".format(self.qual)


class Program:
    """Parsed ``yamlpath`` package (optionally with source overlays)."""

    def __init__(self, root: Optional[str] = None,
                 overlays: Optional[Dict[str, str]] = None) -> None:
        self.root = root or REPO
        self.overlays = overlays or {}
        self.modules: Dict[str, ModuleInfo] = {}      # by modname
        self.by_path: Dict[str, ModuleInfo] = {}      # by relpath
        self.functions: Dict[str, FuncInfo] = {}
        self.classes: Dict[str, ClassInfo] = {}
        self._load()
        self._index()
        self._resolve_bases()
        self.param_types: Dict[str, Dict[str, Set[str]]] = {}
        self._infer_param_types()

    # -- loading ---------------------------------------------------------
    def _load(self) -> None:
        pkgdir = os.path.join(self.root, PKG)
        if not os.path.isdir(pkgdir):
            raise AnalysisError("package directory missing: " + pkgdir)
        paths: List[str] = []
        for dirpath, dirnames, filenames in os.walk(pkgdir):
            dirnames[:] = sorted(d for d in dirnames if d != "__pycache__")
            for fn in sorted(filenames):
                if fn.endswith(".py"):
                    paths.append(os.path.join(dirpath, fn))
        for full in paths:
            rel = os.path.relpath(full, self.root)
            if rel in self.overlays:
                text = self.overlays[rel]
            else:
                with open(full, "r", encoding="utf-8") as fh:
                    text = fh.read()
            modname = rel[:-3].replace(os.sep, ".")
            if modname.endswith(".__init__"):
                modname = modname[:-len(".__init__")]
            try:
                mod = ModuleInfo(rel, modname, text)
            except SyntaxError as ex:
                raise AnalysisError(
                    "cannot parse {}: {}".format(rel, ex)) from ex
            self.modules[modname] = mod
            self.by_path[rel] = mod
        for rel in self.overlays:
            if rel not in self.by_path:
                raise AnalysisError("overlay for unknown file " + rel)
        if len(self.modules) < MODULE_FLOOR:
            raise AnalysisError(
                "only {} modules parsed (floor {})".format(
                    len(self.modules), MODULE_FLOOR))

    # -- indexing --------------------------------------------------------
    def _index(self) -> None:
        for mod in self.modules.values():
            self._index_imports(mod)
            self._index_body(mod, mod.tree.body, mod.modname, None, None)

    def _index_imports(self, mod: ModuleInfo) -> None:
        for node in ast.walk(mod.tree):
            if isinstance(node, ast.Import):
                for alias in node.names:
                    local = alias.asname or alias.name.split(".")[0]
                    target = alias.name if alias.asname else \
                        alias.name.split(".")[0]
                    mod.imports[local] = target
            elif isinstance(node, ast.ImportFrom):
                base = node.module or ""
                if node.level:
                    pkg_parts = mod.package.split(".")
                    if node.level > 1:
                        pkg_parts = pkg_parts[:-(node.level - 1)]
                    base = ".".join(pkg_parts + ([base] if base else []))
                for alias in node.names:
                    local = alias.asname or alias.name
                    mod.imports[local] = base + "." + alias.name

    def _index_body(self, mod: ModuleInfo, body: List[ast.stmt], prefix: str,
                    cls: Optional[ClassInfo],
                    outer: Optional[FuncInfo]) -> None:
        for stmt in body:
            if isinstance(stmt, FUNC_TYPES):
                qual = prefix + "." + stmt.name
                fi = FuncInfo(qual, stmt, mod, cls, outer)
                if cls is not None and outer is None:
                    if fi.is_setter:
                        cls.setters[stmt.name] = fi
                        qual = qual + ".setter"
                        fi.qual = qual
                    else:
                        cls.methods[stmt.name] = fi
                elif outer is None:
                    mod.defs[stmt.name] = stmt
                self.functions[qual] = fi
                # nested functions (anywhere in the body, not in classes)
                nested: List[ast.stmt] = []
                for sub in walk_local(stmt, include_root=False):
                    pass
                self._index_nested(mod, stmt, qual, cls, fi)
            elif isinstance(stmt, ast.ClassDef):
                qual = prefix + "." + stmt.name
                ci = ClassInfo(qual, stmt, mod)
                self.classes[qual] = ci
                if outer is None and cls is None:
                    mod.defs[stmt.name] = stmt
                stmt._cinfo = ci  # type: ignore[attr-defined]
                self._index_body(mod, stmt.body, qual, ci, None)
            elif isinstance(stmt, (ast.Assign, ast.AnnAssign)) and \
                    cls is None and outer is None:
                targets = stmt.targets if isinstance(stmt, ast.Assign) \
                    else [stmt.target]
                for tgt in targets:
                    if isinstance(tgt, ast.Name):
                        mod.defs[tgt.id] = stmt

    def _index_nested(self, mod: ModuleInfo, fnode: ast.FunctionDef,
                      qual: str, cls: Optional[ClassInfo],
                      outer: FuncInfo) -> None:
        stack = list(ast.iter_child_nodes(fnode))
        while stack:
            cur = stack.pop()
            if isinstance(cur, FUNC_TYPES):
                nqual = qual + "." + cur.name
                fi = FuncInfo(nqual, cur, mod, cls, outer)  # type: ignore
                self.functions[nqual] = fi
                self._index_nested(mod, cur, nqual, cls, fi)  # type: ignore
            elif isinstance(cur, (ast.ClassDef, ast.Lambda)):
                continue
            else:
                stack.extend(ast.iter_child_nodes(cur))

    def _resolve_bases(self) -> None:
        for ci in self.classes.values():
            for bexpr in ci.node.bases:
                tgt = self.resolve_expr_to_qual(ci.module, bexpr)
                ci.bases.append(tgt or src(bexpr))
            # attribute annotations from __init__
            init = ci.methods.get("__init__")
            if init is not None:
                for node in walk_local(init.node):
                    if isinstance(node, ast.AnnAssign) and \
                            isinstance(node.target, ast.Attribute) and \
                            isinstance(node.target.value, ast.Name) and \
                            node.target.value.id == "self":
                        ci.attr_types[node.target.attr] = src(node.annotation)
                    elif isinstance(node, ast.Assign) and \
                            len(node.targets) == 1 and \
                            isinstance(node.targets[0], ast.Attribute) and \
                            isinstance(node.targets[0].value, ast.Name) and \
                            node.targets[0].value.id == "self" and \
                            isinstance(node.value, ast.Name):
                        for a in init.node.args.args:
                            if a.arg == node.value.id and a.annotation:
                                ci.attr_types.setdefault(
                                    node.targets[0].attr, src(a.annotation))

    def _infer_param_types(self) -> None:
        """Types of unannotated parameters from the arguments of resolved
        call sites (small fixpoint)."""
        for _ in range(3):
            changed = False
            _TYPES_CACHE.clear()
            for fi in list(self.functions.values()):
                types = types_of(self, fi)
                for node in walk_local(fi.node):
                    if not isinstance(node, ast.Call):
                        continue
                    for callee in resolve_call(self, fi, node, types):
                        params = callee.params()
                        if callee.cls is not None and not callee.is_static \
                                and params and params[0] in ("self", "cls"):
                            params = params[1:]
                        pairs = list(zip(params, node.args))
                        for kw in node.keywords:
                            if kw.arg:
                                pairs.append((kw.arg, kw.value))
                        for pname, arg in pairs:
                            cls = types.classes_of(arg)
                            if not cls:
                                continue
                            slot = self.param_types.setdefault(
                                callee.qual, {}).setdefault(pname, set())
                            if not cls <= slot:
                                slot.update(cls)
                                changed = True
            if not changed:
                break
        _TYPES_CACHE.clear()

    # -- name resolution -------------------------------------------------
    def resolve_dotted(self, dotted: str, _depth: int = 0) -> Optional[str]:
        """Resolve a dotted import target to the defining class/function
        qualname of this program, following ``__init__`` re-exports."""
        if _depth > 10:
            return None
        if dotted in self.classes or dotted in self.functions:
            return dotted
        if dotted in self.modules:
            return dotted
        if "." not in dotted:
            return None
        head, tail = dotted.rsplit(".", 1)
        head_res = head if head in self.modules else \
            self.resolve_dotted(head, _depth + 1)
        if head_res is None:
            return None
        if head_res in self.modules:
            mod = self.modules[head_res]
            if tail in mod.defs:
                q = head_res + "." + tail
                if q in self.classes or q in self.functions:
                    return q
                return q
            if tail in mod.imports:
                return self.resolve_dotted(mod.imports[tail], _depth + 1)
            sub = head_res + "." + tail
            if sub in self.modules:
                return sub
            return None
        if head_res in self.classes:
            ci = self.classes[head_res]
            m = self.find_method(ci, tail)
            if m is not None:
                return m.qual
        return None

    def resolve_name(self, mod: ModuleInfo, name: str) -> Optional[str]:
        if name in mod.defs:
            return mod.modname + "." + name
        if name in mod.imports:
            tgt = mod.imports[name]
            res = self.resolve_dotted(tgt)
            return res or tgt
        return None

    def resolve_expr_to_qual(self, mod: ModuleInfo,
                             expr: ast.AST) -> Optional[str]:
        """Resolve Name / dotted Attribute to a qualified name."""
        if isinstance(expr, ast.Name):
            return self.resolve_name(mod, expr.id)
        if isinstance(expr, ast.Attribute):
            base = self.resolve_expr_to_qual(mod, expr.value)
            if base is None:
                return None
            full = base + "." + expr.attr
            res = self.resolve_dotted(full)
            return res or full
        return None

    # -- class helpers ---------------------------------------------------
    def mro(self, ci: ClassInfo) -> List[ClassInfo]:
        out: List[ClassInfo] = []
        seen: Set[str] = set()
        stack = [ci]
        while stack:
            cur = stack.pop(0)
            if cur.qual in seen:
                continue
            seen.add(cur.qual)
            out.append(cur)
            for b in cur.bases:
                if b in self.classes:
                    stack.append(self.classes[b])
        return out

    def find_method(self, ci: ClassInfo, name: str) -> Optional[FuncInfo]:
        for c in self.mro(ci):
            if name in c.methods:
                return c.methods[name]
        return None

    def find_setter(self, ci: ClassInfo, name: str) -> Optional[FuncInfo]:
        for c in self.mro(ci):
            if name in c.setters:
                return c.setters[name]
        return None

    def is_subclass(self, qual: str, base_suffix: str) -> bool:
        """Is class ``qual`` (program qualname or external dotted name) a
        subclass of a class whose name ends with ``base_suffix``?"""
        seen: Set[str] = set()
        stack = [qual]
        while stack:
            cur = stack.pop()
            if cur in seen:
                continue
            seen.add(cur)
            if cur == base_suffix or cur.endswith("." + base_suffix):
                return True
            if cur in self.classes:
                stack.extend(self.classes[cur].bases)
        return False

    def class_by_name(self, name: str) -> ClassInfo:
        hits = [c for q, c in self.classes.items()
                if q == name or q.endswith("." + name)]
        if len(hits) != 1:
            raise AnalysisError(
                "anchor class {!r} resolves to {} definitions".format(
                    name, len(hits)))
        return hits[0]

    def has_class(self, name: str) -> bool:
        return any(q == name or q.endswith("." + name) for q in self.classes)

    def func(self, suffix: str) -> FuncInfo:
        """Look a function up by qualified-name suffix; the suffix must be
        unique.  A vanished anchor is an analysis error (exit 2)."""
        hits = [f for q, f in self.functions.items()
                if q == suffix or q.endswith("." + suffix)]
        if len(hits) != 1:
            raise AnalysisError(
                "anchor function {!r} resolves to {} definitions".format(
                    suffix, len(hits)))
        return hits[0]

    def has_func(self, suffix: str) -> bool:
        return any(q == suffix or q.endswith("." + suffix)
                   for q in self.functions)

    def funcs_in(self, relpath: str) -> List[FuncInfo]:
        return [f for f in self.functions.values()
                if f.module.relpath == relpath]

    def module(self, relpath: str) -> ModuleInfo:
        if relpath not in self.by_path:
            raise AnalysisError("anchor module missing: " + relpath)
        return self.by_path[relpath]

    def enum_members(self, class_name: str) -> List[str]:
        ci = self.class_by_name(class_name)
        out: List[str] = []
        for stmt in ci.node.body:
            if isinstance(stmt, ast.Assign) and len(stmt.targets) == 1 and \
                    isinstance(stmt.targets[0], ast.Name):
                name = stmt.targets[0].id
                if name.isupper() or name[0].isupper():
                    out.append(name)
        if not out:
            raise AnalysisError("enum {} has no members".format(class_name))
        return out

    def is_enum(self, ci: ClassInfo) -> bool:
        return any(b.endswith("Enum") for b in ci.bases + ci.base_exprs)

    def finfo_of(self, node: ast.AST) -> Optional[FuncInfo]:
        fn = node if isinstance(node, FUNC_TYPES) else \
            enclosing_function(node)
        if fn is None:
            return None
        return getattr(fn, "_finfo", None)


# --------------------------------------------------------------------------
# Type inference (annotations, constructors, isinstance) and call resolution
# --------------------------------------------------------------------------
def _annotation_classes(prog: Program, mod: ModuleInfo,
                        ann: Optional[ast.AST]) -> List[str]:
    """Program classes named by an annotation (through Union/Optional)."""
    if ann is None:
        return []
    if isinstance(ann, ast.Constant) and isinstance(ann.value, str):
        try:
            ann = ast.parse(ann.value, mode="eval").body
        except SyntaxError:
            return []
    if isinstance(ann, ast.Name):
        q = prog.resolve_name(mod, ann.id)
        if q in prog.classes:
            return [q]  # type: ignore[list-item]
        # class defined in the same module but referenced before definition
        return []
    if isinstance(ann, ast.Attribute):
        q = prog.resolve_expr_to_qual(mod, ann)
        return [q] if q in prog.classes else []  # type: ignore[list-item]
    if isinstance(ann, ast.Subscript):
        head = src(ann.value)
        if head in ("Union", "Optional", "typing.Union", "typing.Optional"):
            elts = ann.slice.elts if isinstance(ann.slice, ast.Tuple) \
                else [ann.slice]
            out: List[str] = []
            for e in elts:
                out.extend(_annotation_classes(prog, mod, e))
            return out
    return []


class Types:
    """Cheap flow-insensitive local type facts for one function."""

    def __init__(self, prog: Program, fi: FuncInfo) -> None:
        self.prog = prog
        self.fi = fi
        self.var_types: Dict[str, Set[str]] = {}
        mod = fi.module
        args = fi.node.args
        allargs = args.posonlyargs + args.args + args.kwonlyargs
        for i, a in enumerate(allargs):
            if i == 0 and fi.cls is not None and not fi.is_static and \
                    a.arg in ("self", "cls"):
                self.var_types.setdefault(a.arg, set()).add(fi.cls.qual)
                continue
            for q in _annotation_classes(prog, mod, a.annotation):
                self.var_types.setdefault(a.arg, set()).add(q)
            if a.annotation is None:
                for q in getattr(prog, "param_types", {}).get(
                        fi.qual, {}).get(a.arg, ()):
                    self.var_types.setdefault(a.arg, set()).add(q)
        # closures: inherit outer function's facts
        if fi.outer is not None:
            for k, v in Types(prog, fi.outer).var_types.items():
                self.var_types.setdefault(k, set()).update(v)
        for node in walk_local(fi.node):
            if isinstance(node, ast.AnnAssign) and \
                    isinstance(node.target, ast.Name):
                for q in _annotation_classes(prog, mod, node.annotation):
                    self.var_types.setdefault(node.target.id, set()).add(q)
                if node.value is not None:
                    for q in self._expr_classes(node.value):
                        self.var_types.setdefault(
                            node.target.id, set()).add(q)
            elif isinstance(node, ast.Assign) and len(node.targets) == 1 and \
                    isinstance(node.targets[0], ast.Name):
                for q in self._expr_classes(node.value):
                    self.var_types.setdefault(
                        node.targets[0].id, set()).add(q)
            elif isinstance(node, ast.Call) and \
                    isinstance(node.func, ast.Name) and \
                    node.func.id == "isinstance" and len(node.args) == 2 and \
                    isinstance(node.args[0], ast.Name):
                t = node.args[1]
                elts = t.elts if isinstance(t, ast.Tuple) else [t]
                for e in elts:
                    q = prog.resolve_expr_to_qual(mod, e)
                    if q in prog.classes:
                        self.var_types.setdefault(
                            node.args[0].id, set()).add(q)  # type: ignore

    def _expr_classes(self, expr: ast.AST) -> List[str]:
        prog, mod = self.prog, self.fi.module
        if isinstance(expr, ast.Call):
            q = prog.resolve_expr_to_qual(mod, expr.func)
            if q in prog.classes:
                return [q]  # type: ignore[list-item]
            # return annotation of resolved callee
            callee = resolve_call(prog, self.fi, expr, self)
            out: List[str] = []
            for c in callee:
                out.extend(_annotation_classes(
                    prog, c.module, c.node.returns))
            return out
        if isinstance(expr, ast.IfExp):
            return self._expr_classes(expr.body) + \
                self._expr_classes(expr.orelse)
        if isinstance(expr, ast.BinOp) and isinstance(expr.op, ast.Add):
            return self._expr_classes(expr.left)
        if isinstance(expr, ast.Name):
            return list(self.var_types.get(expr.id, ()))
        if isinstance(expr, ast.Attribute):
            return list(self.classes_of(expr))
        return []

    def classes_of(self, expr: ast.AST) -> Set[str]:
        prog = self.prog
        if isinstance(expr, ast.Name):
            return set(self.var_types.get(expr.id, ()))
        if isinstance(expr, ast.Call):
            return set(self._expr_classes(expr))
        if isinstance(expr, ast.Attribute):
            out: Set[str] = set()
            for cq in self.classes_of(expr.value):
                ci = prog.classes[cq]
                for c in prog.mro(ci):
                    if expr.attr in c.attr_types:
                        try:
                            ann = ast.parse(
                                c.attr_types[expr.attr], mode="eval").body
                        except SyntaxError:
                            continue
                        out.update(_annotation_classes(prog, c.module, ann))
                        break
                    m = c.methods.get(expr.attr)
                    if m is not None and m.is_property:
                        out.update(_annotation_classes(
                            prog, m.module, m.node.returns))
                        break
            return out
        return set()


_TYPES_CACHE: Dict[int, Types] = {}


def types_of(prog: Program, fi: FuncInfo) -> Types:
    key = id(fi)
    if key not in _TYPES_CACHE:
        _TYPES_CACHE[key] = Types(prog, fi)
    return _TYPES_CACHE[key]


def resolve_call(prog: Program, fi: FuncInfo, call: ast.Call,
                 types: Optional[Types] = None) -> List[FuncInfo]:
    """Resolve a call expression to program functions (possibly several)."""
    f = call.func
    mod = fi.module
    if isinstance(f, ast.Name):
        # nested function of this or an outer function
        cur: Optional[FuncInfo] = fi
        while cur is not None:
            q = cur.qual + "." + f.id
            if q in prog.functions:
                return [prog.functions[q]]
            cur = cur.outer
        q2 = prog.resolve_name(mod, f.id)
        if q2 in prog.functions:
            return [prog.functions[q2]]
        if q2 in prog.classes:
            init = prog.find_method(prog.classes[q2], "__init__")
            return [init] if init else []
        return []
    if isinstance(f, ast.Attribute):
        # Class.method / module.function
        q = prog.resolve_expr_to_qual(mod, f)
        if q in prog.functions:
            return [prog.functions[q]]
        if q in prog.classes:
            init = prog.find_method(prog.classes[q], "__init__")
            return [init] if init else []
        base_q = prog.resolve_expr_to_qual(mod, f.value)
        if base_q in prog.classes:
            m = prog.find_method(prog.classes[base_q], f.attr)
            return [m] if m else []
        if types is None:
            types = types_of(prog, fi)
        out: List[FuncInfo] = []
        for cq in sorted(types.classes_of(f.value)):
            m = prog.find_method(prog.classes[cq], f.attr)
            if m is not None and m not in out:
                out.append(m)
        return out
    return []


def resolve_property(prog: Program, fi: FuncInfo,
                     attr: ast.Attribute) -> List[FuncInfo]:
    """Property getters (Load) or setters (Store) that an attribute access
    invokes, when the receiver's class is known."""
    types = types_of(prog, fi)
    out: List[FuncInfo] = []
    for cq in sorted(types.classes_of(attr.value)):
        ci = prog.classes[cq]
        if isinstance(attr.ctx, ast.Store):
            s = prog.find_setter(ci, attr.attr)
            if s is not None and s not in out:
                out.append(s)
        else:
            m = prog.find_method(ci, attr.attr)
            if m is not None and m.is_property and m not in out:
                out.append(m)
    # Class.prop is not a call
    return out


def callees(prog: Program, fi: FuncInfo) -> List[Tuple[ast.AST, FuncInfo]]:
    """All (site, callee) pairs in ``fi``: calls, property reads/writes,
    dunder operators that matter here (str(x) -> __str__, x + y -> __add__,
    x == y -> __eq__, len(x) -> __len__)."""
    out: List[Tuple[ast.AST, FuncInfo]] = []
    types = types_of(prog, fi)
    for node in walk_local(fi.node):
        if isinstance(node, ast.Call):
            for c in resolve_call(prog, fi, node, types):
                out.append((node, c))
            if isinstance(node.func, ast.Name) and \
                    node.func.id in ("str", "len", "repr") and node.args:
                dunder = {"str": "__str__", "len": "__len__",
                          "repr": "__repr__"}[node.func.id]
                for cq in sorted(types.classes_of(node.args[0])):
                    m = prog.find_method(prog.classes[cq], dunder)
                    if m is not None:
                        out.append((node, m))
        elif isinstance(node, ast.Attribute):
            for c in resolve_property(prog, fi, node):
                out.append((node, c))
        elif isinstance(node, ast.BinOp) and isinstance(node.op, ast.Add):
            for cq in sorted(types.classes_of(node.left)):
                m = prog.find_method(prog.classes[cq], "__add__")
                if m is not None:
                    out.append((node, m))
        elif isinstance(node, ast.Compare):
            for op in node.ops:
                if isinstance(op, (ast.Eq, ast.NotEq)):
                    for cq in sorted(types.classes_of(node.left)):
                        m = prog.find_method(
                            prog.classes[cq],
                            "__eq__" if isinstance(op, ast.Eq) else "__ne__")
                        if m is not None:
                            out.append((node, m))
    return out


def closure(prog: Program, roots: Iterable[FuncInfo],
            stop: Optional[Set[str]] = None) -> List[FuncInfo]:
    """Transitive callees of ``roots`` (including nested functions that the
    roots define and call)."""
    seen: Dict[str, FuncInfo] = {}
    stack = list(roots)
    while stack:
        cur = stack.pop()
        if cur.qual in seen:
            continue
        if stop and cur.short in stop:
            continue
        seen[cur.qual] = cur
        for _, c in callees(prog, cur):
            if c.qual not in seen:
                stack.append(c)
    return list(seen.values())
