"""Normalisation of the parsed program before any rule looks at it.

**Inlining of helpers that are not in the function inventory.**  The rules
of this framework are anchored in functions (``Merger._merge_dicts``, the
parser loop of ``YAMLPath._parse_path``, ...) that were confirmed by reading
the tree; ``sa/function_inventory.json`` lists every function of that tree.
The most common behaviour-preserving edit of such a function is *extract
method*: a block moves into a new private helper and a call takes its place.
The anchored function then no longer contains the constructs its rules
decide, although the program is the same.  A private function (or method)
that the inventory does not know is therefore inlined at its call sites
inside its own module when that can be done *exactly*:

* the helper has no ``yield`` / ``await`` / nested ``def`` / ``global`` /
  ``nonlocal`` / ``*args`` / ``**kwargs`` and no decorator other than
  ``staticmethod`` / ``classmethod``;
* its only ``return`` (if any) is the last statement of its body;
* the call is a whole statement (``helper(...)``, ``x = helper(...)``,
  ``return helper(...)``), spelled ``self.helper`` / ``cls.helper`` /
  ``Class.helper`` / ``helper``, and every parameter is bound by the call or
  by a default.

A parameter that the helper never re-binds and whose argument is a plain
name, attribute chain or constant is substituted; any other parameter
becomes a fresh local initialised from its argument in front of the inlined
body (evaluation order of the arguments is kept).  Locals of the helper are
renamed when the caller already uses their names.  When every reference to
the helper is gone its definition is dropped.  The transformation is a
textbook inlining; where one of the conditions fails nothing is changed and
the rules see the helper as it is.
"""
from __future__ import annotations

import ast
import copy
import json
import os
from typing import Dict, List, Optional, Set, Tuple

_INV_PATH = os.path.join(os.path.dirname(os.path.abspath(__file__)),
                         "function_inventory.json")
_INV: Optional[Dict[str, List[str]]] = None


def inventory() -> Dict[str, List[str]]:
    global _INV
    if _INV is None:
        if os.path.exists(_INV_PATH):
            with open(_INV_PATH, "r", encoding="utf-8") as fh:
                _INV = json.load(fh)
        else:
            _INV = {}
    return _INV


def qualnames(tree: ast.Module) -> List[Tuple[str, ast.FunctionDef,
                                              Optional[ast.ClassDef]]]:
    out = []
    for st in tree.body:
        if isinstance(st, ast.FunctionDef):
            out.append((st.name, st, None))
        elif isinstance(st, ast.ClassDef):
            for s2 in st.body:
                if isinstance(s2, ast.FunctionDef):
                    out.append((st.name + "." + s2.name, s2, st))
    return out


def _simple(e: ast.AST) -> bool:
    if isinstance(e, ast.Constant):
        return True
    while isinstance(e, ast.Attribute):
        e = e.value
    return isinstance(e, ast.Name)


def _eligible(fn: ast.FunctionDef) -> bool:
    if fn.args.vararg or fn.args.kwarg or fn.args.posonlyargs:
        return False
    for d in fn.decorator_list:
        if not (isinstance(d, ast.Name) and
                d.id in ("staticmethod", "classmethod")):
            return False
    body = _body(fn)
    if not body:
        return False
    for n in ast.walk(fn):
        if n is fn:
            continue
        if isinstance(n, (ast.Yield, ast.YieldFrom, ast.Await,
                          ast.FunctionDef, ast.AsyncFunctionDef,
                          ast.ClassDef, ast.Global, ast.Nonlocal,
                          ast.Lambda)):
            return False
        if isinstance(n, ast.Return) and n is not body[-1] and \
                not _find_first_shape(fn):
            return False
        # a recursive helper is not inlined
        if isinstance(n, ast.Call):
            f = n.func
            nm = f.attr if isinstance(f, ast.Attribute) else (
                f.id if isinstance(f, ast.Name) else "")
            if nm == fn.name:
                return False
    return True


def _find_first_shape(fn: ast.FunctionDef) -> bool:
    """`for ...: ... return <v>` immediately followed by the trailing
    `return <constant>`: every other return sits in that one loop (not in a
    nested loop, not under try/with), the loop has no else clause."""
    body = _body(fn)
    last = body[-1].value if body and isinstance(body[-1], ast.Return) \
        else None
    if isinstance(last, ast.UnaryOp) and isinstance(last.op, ast.USub):
        last = last.operand           # `return -1`
    if len(body) < 2 or not isinstance(body[-1], ast.Return) or \
            not isinstance(last, ast.Constant) or \
            not isinstance(body[-2], (ast.For, ast.While)) or \
            body[-2].orelse:
        return False
    loop = body[-2]
    inner = [n for n in ast.walk(fn) if isinstance(n, ast.Return) and
             n is not body[-1]]
    if not inner or any(r.value is None for r in inner):
        return False

    def ok(stmts: List[ast.stmt]) -> bool:
        for st in stmts:
            if isinstance(st, (ast.For, ast.While, ast.Try, ast.With)):
                if any(isinstance(x, ast.Return) for x in ast.walk(st)):
                    return False
            elif isinstance(st, ast.If):
                if not ok(st.body) or not ok(st.orelse):
                    return False
        return True

    in_loop = [n for n in ast.walk(loop) if isinstance(n, ast.Return)]
    return len(in_loop) == len(inner) and ok(loop.body)


class _ReturnToBreak(ast.NodeTransformer):
    def __init__(self, name: str) -> None:
        self.name = name

    def _rewrite(self, stmts: List[ast.stmt]) -> List[ast.stmt]:
        out: List[ast.stmt] = []
        for st in stmts:
            if isinstance(st, ast.Return):
                out.append(ast.copy_location(ast.Assign(
                    targets=[ast.Name(id=self.name, ctx=ast.Store())],
                    value=st.value), st))
                out.append(ast.copy_location(ast.Break(), st))
            else:
                if isinstance(st, ast.If):
                    st.body = self._rewrite(st.body)
                    st.orelse = self._rewrite(st.orelse)
                out.append(st)
        return out


def _body(fn: ast.FunctionDef) -> List[ast.stmt]:
    body = list(fn.body)
    if body and isinstance(body[0], ast.Expr) and \
            isinstance(body[0].value, ast.Constant) and \
            isinstance(body[0].value.value, str):
        body = body[1:]
    return body


def _assigned(fn: ast.FunctionDef) -> Set[str]:
    out: Set[str] = set()
    for n in ast.walk(fn):
        if isinstance(n, ast.Name) and isinstance(n.ctx, (ast.Store,
                                                            ast.Del)):
            out.add(n.id)
    return out


class _Rewrite(ast.NodeTransformer):
    def __init__(self, subst: Dict[str, ast.AST], ren: Dict[str, str]):
        self.subst = subst
        self.ren = ren

    def visit_Name(self, n: ast.Name) -> ast.AST:
        if n.id in self.subst and isinstance(n.ctx, ast.Load):
            return ast.copy_location(copy.deepcopy(self.subst[n.id]), n)
        if n.id in self.ren:
            return ast.copy_location(ast.Name(id=self.ren[n.id], ctx=n.ctx),
                                     n)
        return n


def _call_of(st: ast.stmt) -> Optional[ast.Call]:
    v = None
    if isinstance(st, ast.Expr):
        v = st.value
    elif isinstance(st, ast.Assign) and len(st.targets) == 1 and \
            isinstance(st.targets[0], ast.Name):
        v = st.value
    elif isinstance(st, ast.AnnAssign) and isinstance(st.target, ast.Name):
        v = st.value
    elif isinstance(st, ast.Return):
        v = st.value
    return v if isinstance(v, ast.Call) else None


def _targets(call: ast.Call, fn: ast.FunctionDef,
             cls: Optional[ast.ClassDef],
             caller_cls: Optional[ast.ClassDef]) -> bool:
    f = call.func
    if cls is None:
        return isinstance(f, ast.Name) and f.id == fn.name
    if not (isinstance(f, ast.Attribute) and f.attr == fn.name and
            isinstance(f.value, ast.Name)):
        return False
    if f.value.id == cls.name:
        return True
    return f.value.id in ("self", "cls") and caller_cls is cls


def _inline_at(st: ast.stmt, call: ast.Call, fn: ast.FunctionDef,
               cls: Optional[ast.ClassDef], caller: ast.FunctionDef,
               force_result: bool = False) -> Optional[List[ast.stmt]]:
    params = [a.arg for a in fn.args.args]
    defaults: Dict[str, ast.AST] = {}
    for a, d in zip(reversed(fn.args.args), reversed(fn.args.defaults)):
        defaults[a.arg] = d
    for a, d in zip(fn.args.kwonlyargs, fn.args.kw_defaults):
        params.append(a.arg)
        if d is not None:
            defaults[a.arg] = d
    static = any(isinstance(d, ast.Name) and d.id == "staticmethod"
                 for d in fn.decorator_list)
    bound: Dict[str, ast.AST] = {}
    order: List[str] = []
    pos = list(params)
    if cls is not None and not static:
        if not pos:
            return None
        first = pos.pop(0)
        recv = call.func.value  # type: ignore[attr-defined]
        is_cm = any(isinstance(d, ast.Name) and d.id == "classmethod"
                    for d in fn.decorator_list)
        if isinstance(recv, ast.Name) and recv.id == cls.name and not is_cm:
            return None     # Class.method(obj, ...) spelling: leave alone
        bound[first] = recv
        order.append(first)
        params = [p for p in params if p != first]
    if any(isinstance(a, ast.Starred) for a in call.args) or \
            any(k.arg is None for k in call.keywords):
        return None
    kwonly = {a.arg for a in fn.args.kwonlyargs}
    posparams = [p for p in pos if p not in kwonly]
    if len(call.args) > len(posparams):
        return None
    for p, a in zip(posparams, call.args):
        bound[p] = a
        order.append(p)
    for k in call.keywords:
        if k.arg not in params or k.arg in bound:
            return None
        bound[k.arg] = k.value  # type: ignore[index]
        order.append(k.arg)  # type: ignore[arg-type]
    for p in params:
        if p not in bound:
            if p not in defaults:
                return None
            bound[p] = defaults[p]
            order.append(p)
    assigned = _assigned(fn)
    caller_names = {n.id for n in ast.walk(caller) if isinstance(n, ast.Name)}
    caller_names |= {a.arg for a in caller.args.args + caller.args.kwonlyargs}
    subst: Dict[str, ast.AST] = {}
    ren: Dict[str, str] = {}
    prelude: List[ast.stmt] = []

    def fresh(name: str) -> str:
        cand = name
        while cand in caller_names:
            cand = cand + "__" + fn.name.strip("_")
        caller_names.add(cand)
        return cand

    for p in order:
        e = bound[p]
        if p not in assigned and _simple(e):
            subst[p] = e
        else:
            new = fresh(p)
            if new != p:
                ren[p] = new
            prelude.append(ast.copy_location(ast.Assign(
                targets=[ast.Name(id=new, ctx=ast.Store())],
                value=copy.deepcopy(e)), st))
    for loc in sorted(assigned - set(order)):
        new = fresh(loc)
        if new != loc:
            ren[loc] = new
    body = [copy.deepcopy(s) for s in _body(fn)]
    if _find_first_shape(fn) and not isinstance(body[-1].value, type(None)) \
            and any(isinstance(n, ast.Return) for n in ast.walk(body[-2])):
        # single-exit form:  r = <constant>; loop with `r = v; break`;
        # return r
        if not (isinstance(st, ast.Assign) and
                isinstance(st.targets[0], ast.Name)):
            return None
        res = st.targets[0].id
        if res in _assigned(fn) or res in {a.arg for a in fn.args.args}:
            return None
        loop = body[-2]
        loop.body = _ReturnToBreak(res)._rewrite(loop.body)
        init = ast.copy_location(ast.Assign(
            targets=[ast.Name(id=res, ctx=ast.Store())],
            value=body[-1].value), st)
        body = body[:-2] + [init, loop, ast.copy_location(ast.Return(
            value=ast.Name(id=res, ctx=ast.Load())), st)]
    rw = _Rewrite(subst, ren)
    body = [rw.visit(s) for s in body]
    tail: List[ast.stmt] = []
    ret_value: Optional[ast.AST] = None
    if body and isinstance(body[-1], ast.Return):
        ret_value = body[-1].value
        body = body[:-1]
    if ret_value is None:
        ret_value = ast.Constant(value=None)
    if isinstance(st, ast.Expr):
        if force_result or \
                not isinstance(ret_value, (ast.Constant, ast.Name)):
            tail = [ast.copy_location(ast.Expr(value=ret_value), st)]
    elif isinstance(st, ast.Assign):
        tail = [ast.copy_location(ast.Assign(
            targets=copy.deepcopy(st.targets), value=ret_value), st)]
    elif isinstance(st, ast.AnnAssign):
        tail = [ast.copy_location(ast.AnnAssign(
            target=copy.deepcopy(st.target),
            annotation=copy.deepcopy(st.annotation), value=ret_value,
            simple=st.simple), st)]
    elif isinstance(st, ast.Return):
        tail = [ast.copy_location(ast.Return(value=ret_value), st)]
    out = prelude + body + tail
    return out or [ast.copy_location(ast.Pass(), st)]


def _nested_call(st: ast.stmt, fn: ast.FunctionDef,
                 cls: Optional[ast.ClassDef],
                 caller_cls: Optional[ast.ClassDef]) -> Optional[ast.Call]:
    """The single call of the helper inside a simple statement, when
    everything the statement evaluates before it is free of effects: the
    only other calls are those the helper call is (transitively) an
    argument of, their functions are plain names / attribute chains /
    methods of constants, and every other operand is a name, an attribute
    chain or a constant."""
    if not isinstance(st, (ast.Expr, ast.Assign, ast.Return)):
        return None
    root = st.value
    if root is None:
        return None
    hits = [n for n in ast.walk(root) if isinstance(n, ast.Call) and
            _targets(n, fn, cls, caller_cls)]
    if len(hits) != 1 or hits[0] is root:
        return None
    hit = hits[0]
    if not isinstance(fn.body[-1], ast.Return) or fn.body[-1].value is None:
        return None

    def on_path(n: ast.AST) -> bool:
        return any(x is hit for x in ast.walk(n))

    def pure(n: ast.AST) -> bool:
        if n is hit:
            return True
        if isinstance(n, (ast.Constant, ast.Name)):
            return True
        if isinstance(n, ast.Attribute):
            return pure(n.value)
        if isinstance(n, ast.Call) and on_path(n) and not on_path(n.func):
            f = n.func
            okf = _simple(f) or (isinstance(f, ast.Attribute) and
                                 isinstance(f.value, ast.Constant))
            return okf and all(pure(a) for a in n.args) and \
                all(pure(k.value) for k in n.keywords)
        return False

    return hit if pure(root) else None


def _replace(root: ast.AST, old: ast.AST, new: ast.AST) -> None:
    for n in ast.walk(root):
        for field, val in ast.iter_fields(n):
            if val is old:
                setattr(n, field, new)
            elif isinstance(val, list):
                for j, x in enumerate(val):
                    if x is old:
                        val[j] = new


def _inline_in_block(block: List[ast.stmt], fn: ast.FunctionDef,
                     cls: Optional[ast.ClassDef], caller: ast.FunctionDef,
                     caller_cls: Optional[ast.ClassDef]) -> int:
    done = 0
    i = 0
    while i < len(block):
        st = block[i]
        call = _call_of(st)
        if call is not None and _targets(call, fn, cls, caller_cls):
            # no other call of the helper hides inside the arguments
            new = _inline_at(st, call, fn, cls, caller)
            if new is not None:
                block[i:i + 1] = new
                i += len(new)
                done += 1
                continue
        nested = _nested_call(st, fn, cls, caller_cls)
        if nested is not None:
            holder = ast.Expr(value=nested)
            ast.copy_location(holder, st)
            new = _inline_at(holder, nested, fn, cls, caller, True)
            if new is not None and new and isinstance(new[-1], ast.Expr) \
                    and new[-1] is not holder:
                # body first, then the statement with the helper's result
                # expression where the call stood
                result = new[-1].value
                _replace(st, nested, result)
                block[i:i + 1] = new[:-1] + [st]
                i += len(new)
                done += 1
                continue
        for field in ("body", "orelse", "finalbody"):
            sub = getattr(st, field, None)
            if isinstance(sub, list) and sub and isinstance(sub[0], ast.stmt)\
                    and not isinstance(st, (ast.FunctionDef, ast.ClassDef)):
                done += _inline_in_block(sub, fn, cls, caller, caller_cls)
        if isinstance(st, ast.Try):
            for h in st.handlers:
                done += _inline_in_block(h.body, fn, cls, caller, caller_cls)
        if isinstance(st, ast.With):
            pass
        i += 1
    return done


class _CanonicalIf(ast.NodeTransformer):
    """`if not T: A else: B`  ->  `if T: B else: A` (plain `else` only, no
    `elif` on either side being created or destroyed): which arm is written
    first is a matter of taste and maintainers flip it freely (guard
    clauses), so the rules are shown one spelling."""

    def __init__(self, compares: bool) -> None:
        self.compares = compares
        self.count = 0

    def visit_If(self, node: ast.If) -> ast.AST:
        self.generic_visit(node)
        if not node.orelse:
            return node
        t = node.test
        chain = (len(node.orelse) == 1 and
                 isinstance(node.orelse[0], ast.If)) or \
            (len(node.body) == 1 and isinstance(node.body[0], ast.If))
        if chain and not (isinstance(t, ast.UnaryOp) and
                          isinstance(t.op, ast.Not)):
            return node     # leave `elif` chains with positive tests alone
        if isinstance(t, ast.UnaryOp) and isinstance(t.op, ast.Not):
            node.test = t.operand
            node.body, node.orelse = node.orelse, node.body
            self.count += 1
        elif self.compares and isinstance(t, ast.Compare) and \
                len(t.ops) == 1 and isinstance(
                    t.ops[0], (ast.NotIn, ast.IsNot, ast.NotEq)):
            t.ops = [{ast.NotIn: ast.In, ast.IsNot: ast.Is,
                      ast.NotEq: ast.Eq}[type(t.ops[0])]()]
            node.body, node.orelse = node.orelse, node.body
            self.count += 1
        return node


def _terminates(body: List[ast.stmt]) -> bool:
    return bool(body) and isinstance(
        body[-1], (ast.Return, ast.Raise, ast.Continue, ast.Break))


class _CanonicalBlocks(ast.NodeTransformer):
    """Two more spellings of one program, each reduced to one form:

    * `if c: ...; return|raise|continue|break` + `else: B` (plain else)
      ->  the `if` followed by B;
    * `t = <expr>` directly followed by `return t`, where `t` occurs
      nowhere else in the function  ->  `return <expr>`."""

    def __init__(self, drop_else: bool, ret_temp: bool) -> None:
        self.drop_else = drop_else
        self.ret_temp = ret_temp
        self.count = 0
        self._captured: Set[str] = set()

    def visit_FunctionDef(self, node: ast.FunctionDef) -> ast.AST:
        saved = self._captured
        # names that a nested scope may see, or that live outside
        cap: Set[str] = set()
        for n in ast.walk(node):
            if isinstance(n, (ast.Global, ast.Nonlocal)):
                cap |= set(n.names)
            if n is not node and isinstance(
                    n, (ast.FunctionDef, ast.AsyncFunctionDef, ast.Lambda,
                        ast.ClassDef)):
                cap |= {x.id for x in ast.walk(n) if isinstance(x, ast.Name)}
        self._captured = cap
        self.generic_visit(node)
        self._captured = saved
        return node

    def _block(self, stmts: List[ast.stmt]) -> List[ast.stmt]:
        out: List[ast.stmt] = []
        for st in stmts:
            if self.drop_else and isinstance(st, ast.If) and st.orelse and \
                    _terminates(st.body) and not (
                        len(st.orelse) == 1 and
                        isinstance(st.orelse[0], ast.If)):
                tail = st.orelse
                st.orelse = []
                out.append(st)
                out.extend(tail)
                self.count += 1
                continue
            if self.ret_temp and isinstance(st, ast.Return) and \
                    isinstance(st.value, ast.Name) and out and \
                    isinstance(out[-1], ast.Assign) and \
                    len(out[-1].targets) == 1 and \
                    isinstance(out[-1].targets[0], ast.Name) and \
                    out[-1].targets[0].id == st.value.id and \
                    st.value.id not in self._captured:
                prev = out.pop()
                out.append(ast.copy_location(
                    ast.Return(value=prev.value), prev))
                self.count += 1
                continue
            out.append(st)
        return out

    def generic_visit(self, node: ast.AST) -> ast.AST:
        super().generic_visit(node)
        for field in ("body", "orelse", "finalbody"):
            val = getattr(node, field, None)
            if isinstance(val, list) and val and \
                    isinstance(val[0], ast.stmt):
                setattr(node, field, self._block(val))
        if isinstance(node, ast.Try):
            for h in node.handlers:
                h.body = self._block(h.body)
        return node


class _CanonicalExprs(ast.NodeTransformer):
    """More spellings of one program reduced to one form (each switchable
    through VERIF_CANON_EXPR, letters below):

    i  `isinstance(x, A) or isinstance(x, B)` (same plain operand)
       ->  `isinstance(x, (A, B))`;
    n  `if a: if b: BODY` (no else on either, nothing else in the outer
       body)  ->  `if a and b: BODY`;
    a  `if T: v = A` / `else: v = B` (one plain name, single statements)
       ->  `v = A if T else B`;
    r  `if T: return A` directly followed by `return B`
       ->  `return A if T else B`."""

    def __init__(self, modes: str) -> None:
        self.modes = modes
        self.count = 0

    def visit_BoolOp(self, node: ast.BoolOp) -> ast.AST:
        self.generic_visit(node)
        if "i" not in self.modes or not isinstance(node.op, ast.Or):
            return node
        out: List[ast.expr] = []
        for v in node.values:
            if out and self._isinst(v) and self._isinst(out[-1]) and \
                    ast.dump(v.args[0]) == ast.dump(out[-1].args[0]) and \
                    _simple(v.args[0]):
                prev = out[-1]
                a = prev.args[1]
                b = v.args[1]
                elts = (list(a.elts) if isinstance(a, ast.Tuple) else [a]) + \
                    (list(b.elts) if isinstance(b, ast.Tuple) else [b])
                prev.args[1] = ast.copy_location(
                    ast.Tuple(elts=elts, ctx=ast.Load()), a)
                self.count += 1
            else:
                out.append(v)
        if len(out) == 1:
            return out[0]
        node.values = out
        return node

    @staticmethod
    def _isinst(v: ast.AST) -> bool:
        return isinstance(v, ast.Call) and isinstance(v.func, ast.Name) and \
            v.func.id == "isinstance" and len(v.args) == 2 and \
            not v.keywords

    def visit_If(self, node: ast.If) -> ast.AST:
        self.generic_visit(node)
        if "n" in self.modes and not node.orelse and \
                len(node.body) == 1 and isinstance(node.body[0], ast.If) \
                and not node.body[0].orelse:
            inner = node.body[0]
            vals = (list(node.test.values) if isinstance(node.test, ast.BoolOp)
                    and isinstance(node.test.op, ast.And) else [node.test]) \
                + (list(inner.test.values)
                   if isinstance(inner.test, ast.BoolOp) and
                   isinstance(inner.test.op, ast.And) else [inner.test])
            node.test = ast.copy_location(
                ast.BoolOp(op=ast.And(), values=vals), node.test)
            node.body = inner.body
            self.count += 1
            return node
        if "a" in self.modes and len(node.body) == 1 and \
                len(node.orelse) == 1 and \
                all(isinstance(x, ast.Assign) and len(x.targets) == 1 and
                    isinstance(x.targets[0], ast.Name)
                    for x in (node.body[0], node.orelse[0])) and \
                node.body[0].targets[0].id == node.orelse[0].targets[0].id:
            self.count += 1
            return ast.copy_location(ast.Assign(
                targets=[node.body[0].targets[0]],
                value=ast.IfExp(test=node.test, body=node.body[0].value,
                                orelse=node.orelse[0].value)), node)
        return node

    def _split(self, stmts: List[ast.stmt]) -> List[ast.stmt]:
        """R  `return A if T else B`  ->  `if T: return A` + `return B`;
        A  `v = A if T else B` (plain name) -> `if T: v = A` / `else: v = B`
        (the statement forms are the ones this tree uses)."""
        out: List[ast.stmt] = []
        for st in stmts:
            if "R" in self.modes and isinstance(st, ast.Return) and \
                    isinstance(st.value, ast.IfExp):
                e = st.value
                out.append(ast.copy_location(ast.If(
                    test=e.test, body=[ast.copy_location(
                        ast.Return(value=e.body), st)], orelse=[]), st))
                out.append(ast.copy_location(ast.Return(value=e.orelse), st))
                self.count += 1
            elif "A" in self.modes and isinstance(st, ast.Assign) and \
                    len(st.targets) == 1 and \
                    isinstance(st.targets[0], ast.Name) and \
                    isinstance(st.value, ast.IfExp):
                e = st.value
                out.append(ast.copy_location(ast.If(
                    test=e.test,
                    body=[ast.copy_location(ast.Assign(
                        targets=[ast.Name(id=st.targets[0].id,
                                          ctx=ast.Store())],
                        value=e.body), st)],
                    orelse=[ast.copy_location(ast.Assign(
                        targets=[ast.Name(id=st.targets[0].id,
                                          ctx=ast.Store())],
                        value=e.orelse), st)]), st))
                self.count += 1
            else:
                out.append(st)
        return out

    def _block(self, stmts: List[ast.stmt]) -> List[ast.stmt]:
        if "R" in self.modes or "A" in self.modes:
            stmts = self._split(stmts)
        if "r" not in self.modes:
            return stmts
        out: List[ast.stmt] = []
        for st in stmts:
            if isinstance(st, ast.Return) and st.value is not None and out \
                    and isinstance(out[-1], ast.If) and not out[-1].orelse \
                    and len(out[-1].body) == 1 and \
                    isinstance(out[-1].body[0], ast.Return) and \
                    out[-1].body[0].value is not None:
                prev = out.pop()
                out.append(ast.copy_location(ast.Return(value=ast.IfExp(
                    test=prev.test, body=prev.body[0].value,
                    orelse=st.value)), prev))
                self.count += 1
                continue
            out.append(st)
        return out

    def generic_visit(self, node: ast.AST) -> ast.AST:
        super().generic_visit(node)
        for field in ("body", "orelse", "finalbody"):
            val = getattr(node, field, None)
            if isinstance(val, list) and val and \
                    isinstance(val[0], ast.stmt):
                setattr(node, field, self._block(val))
        return node


def normalise(relpath: str, tree: ast.Module) -> List[str]:
    """Inline unknown private helpers of ``tree`` in place; returns a log."""
    mode = os.environ.get("VERIF_CANON_IF", "2")
    if mode != "0":
        c = _CanonicalIf(mode == "2")
        c.visit(tree)
    emode = os.environ.get("VERIF_CANON_EXPR", "inR")
    if emode and emode != "0":
        _CanonicalExprs(emode).visit(tree)
    bmode = os.environ.get("VERIF_CANON_BLOCKS", "et")
    if bmode != "0":
        _CanonicalBlocks("e" in bmode, "t" in bmode).visit(tree)
    known = inventory().get(relpath)
    if known is None:
        return []
    known_set = set(known)
    log: List[str] = []
    for _round in range(3):
        funcs = qualnames(tree)
        new = [(q, fn, cls) for q, fn, cls in funcs
               if q not in known_set and fn.name.startswith("_") and
               not fn.name.startswith("__") and _eligible(fn)]
        if not new:
            break
        progressed = False
        for q, fn, cls in new:
            n = 0
            for cq, caller, ccls in funcs:
                if caller is fn:
                    continue
                n += _inline_in_block(caller.body, fn, cls, caller, ccls)
            if not n:
                continue
            progressed = True
            refs = 0
            for node in ast.walk(tree):
                if node is fn:
                    continue
                if isinstance(node, ast.Attribute) and node.attr == fn.name:
                    refs += 1
                elif isinstance(node, ast.Name) and node.id == fn.name and \
                        cls is None:
                    refs += 1
            inside = sum(1 for node in ast.walk(fn)
                         if (isinstance(node, ast.Attribute) and
                             node.attr == fn.name))
            if refs - inside <= 0:
                owner = cls.body if cls is not None else tree.body
                owner.remove(fn)
                log.append("{}: inlined {} at {} call site(s), definition "
                           "dropped".format(relpath, q, n))
            else:
                log.append("{}: inlined {} at {} call site(s), {} other "
                           "reference(s) left".format(relpath, q, n,
                                                      refs - inside))
        if not progressed:
            break
    if log:
        ast.fix_missing_locations(tree)
    return log
