"""Partial evaluator: specialise a statement list w.r.t. known bindings.

Bindings map *expression source text* (``"segment_type"``, ``"terms.method"``)
to abstract values:

* ``Const(v)``          a Python constant (bool/int/str/None);
* ``Enum(cls, member)`` a member of an enum class of the program;
* ``Kind(tag)``         a run-time kind tag for ``isinstance`` folding; the
                        caller supplies ``isa[tag] -> set of class names``.

Tests are folded three-valued; dead branches and code after a terminating
statement are pruned.  The *residual* keeps original statement nodes where
possible (their parent links stay valid); a partially decided compound
statement is shallow-copied with ``_orig`` pointing to the original.
"""
from __future__ import annotations

import ast
import copy
from typing import Any, Dict, Iterable, List, Optional, Set, Tuple

from .model import src, walk_local
from .guards import assigned_names, terminates


class Const:
    def __init__(self, value: Any) -> None:
        self.value = value

    def __repr__(self) -> str:
        return "Const({!r})".format(self.value)


class Enum:
    def __init__(self, cls: str, member: str) -> None:
        self.cls = cls
        self.member = member

    def __repr__(self) -> str:
        return "{}.{}".format(self.cls, self.member)


class Kind:
    def __init__(self, tag: str) -> None:
        self.tag = tag

    def __repr__(self) -> str:
        return "Kind({})".format(self.tag)


Env = Dict[str, Any]

# Default isinstance table for document node kinds.
DOC_ISA: Dict[str, Set[str]] = {
    "map": {"CommentedMap", "dict", "ryod", "ordereddict", "OrderedDict",
            "MutableMapping", "Mapping"},
    "pydict": {"dict", "MutableMapping", "Mapping"},
    "seq": {"CommentedSeq", "list", "MutableSequence", "Sequence"},
    "pylist": {"list", "MutableSequence", "Sequence"},
    "set": {"CommentedSet", "MutableSet", "Set"},
    "pyset": {"set", "MutableSet", "Set"},
    "str": {"str"},
    "int": {"int"},
    "bool": {"bool", "int"},
    "float": {"float"},
    "none": set(),
    "other": set(),
    "nodecoords": {"NodeCoords"},
}


class PEval:
    def __init__(self, isa: Optional[Dict[str, Set[str]]] = None,
                 enum_classes: Optional[Set[str]] = None) -> None:
        self.isa = isa if isa is not None else DOC_ISA
        self.enum_classes = enum_classes or set()

    # -- expression evaluation -----------------------------------------
    def value(self, expr: ast.AST, env: Env) -> Any:
        """Abstract value of ``expr`` or None if unknown."""
        key = src(expr)
        if key in env:
            return env[key]
        if isinstance(expr, ast.Constant):
            return Const(expr.value)
        if isinstance(expr, ast.Attribute) and \
                isinstance(expr.value, ast.Name) and \
                expr.value.id in self.enum_classes:
            return Enum(expr.value.id, expr.attr)
        if isinstance(expr, ast.BinOp) and isinstance(
                expr.op, (ast.Add, ast.Sub, ast.Mult)):
            a, b = self.value(expr.left, env), self.value(expr.right, env)
            if isinstance(a, Const) and isinstance(b, Const) and \
                    isinstance(a.value, int) and isinstance(b.value, int) \
                    and not isinstance(a.value, bool) and \
                    not isinstance(b.value, bool):
                if isinstance(expr.op, ast.Add):
                    return Const(a.value + b.value)
                if isinstance(expr.op, ast.Sub):
                    return Const(a.value - b.value)
                return Const(a.value * b.value)
            return self._fold_text(expr, env)
        if isinstance(expr, ast.UnaryOp) and isinstance(expr.op, ast.USub):
            a = self.value(expr.operand, env)
            if isinstance(a, Const) and isinstance(a.value, int):
                return Const(-a.value)
            return None
        if isinstance(expr, (ast.Compare, ast.BoolOp)) or (
                isinstance(expr, ast.UnaryOp) and
                isinstance(expr.op, ast.Not)) or (
                isinstance(expr, ast.Call) and
                isinstance(expr.func, ast.Name) and
                expr.func.id == "isinstance"):
            t = self.truth(expr, env, _from_value=True)
            if t is not None:
                return Const(t)
            return None
        if isinstance(expr, ast.IfExp):
            c = self.truth(expr.test, env)
            if c is True:
                return self.value(expr.body, env)
            if c is False:
                return self.value(expr.orelse, env)
        if isinstance(expr, (ast.Tuple, ast.List)):
            vals = [self.value(e, env) for e in expr.elts]
            if all(isinstance(v, Const) for v in vals):
                return Const([v.value for v in vals])
            return None
        if isinstance(expr, (ast.GeneratorExp, ast.ListComp)) and \
                len(expr.generators) == 1 and \
                isinstance(expr.generators[0].target, ast.Name):
            gen = expr.generators[0]
            seq = self.value(gen.iter, env)
            if isinstance(seq, Const) and \
                    isinstance(seq.value, (str, list, tuple)):
                out = []
                for el in seq.value:
                    e2 = dict(env)
                    e2[gen.target.id] = Const(el)
                    keep = True
                    for cond in gen.ifs:
                        t = self.truth(cond, e2)
                        if t is None:
                            return None
                        keep = keep and t
                    if not keep:
                        continue
                    v = self.value(expr.elt, e2)
                    if not isinstance(v, Const):
                        return None
                    out.append(v.value)
                return Const(out)
            return None
        return self._fold_text(expr, env)

    # total, pure operations on constant text (no user code involved)
    _STR_METHODS = ("startswith", "endswith", "rstrip", "lstrip", "strip",
                    "lower", "upper", "replace", "find", "rfind", "index",
                    "count", "format", "casefold", "title", "capitalize",
                    "swapcase", "expandtabs", "zfill", "center", "ljust",
                    "rjust", "isspace", "isdigit", "isdecimal", "isnumeric",
                    "isalpha", "isalnum", "isupper", "islower",
                    "removeprefix", "removesuffix")

    def _fold_text(self, expr: ast.AST, env: Env) -> Any:
        if isinstance(expr, ast.JoinedStr):
            # f"...{x}..." over constant text / numbers (no conversion
            # flags other than !s / !r, constant format specs)
            parts = []
            for v in expr.values:
                if isinstance(v, ast.Constant) and isinstance(v.value, str):
                    parts.append(v.value)
                    continue
                if not isinstance(v, ast.FormattedValue):
                    return None
                a = self.value(v.value, env)
                if not (isinstance(a, Const) and
                        isinstance(a.value, (str, int, float)) and
                        not isinstance(a.value, bool)):
                    return None
                spec = ""
                if v.format_spec is not None:
                    sp = self._fold_text(v.format_spec, env)
                    if not isinstance(sp, Const):
                        return None
                    spec = sp.value
                val = a.value
                if v.conversion == ord("r"):
                    val = repr(val)
                elif v.conversion == ord("s"):
                    val = str(val)
                elif v.conversion != -1:
                    return None
                try:
                    parts.append(format(val, spec))
                except (TypeError, ValueError):
                    return None
            return Const("".join(parts))
        if isinstance(expr, ast.Call) and isinstance(expr.func, ast.Name) \
                and expr.func.id in ("all", "any") and len(expr.args) == 1 \
                and not expr.keywords:
            a = self.value(expr.args[0], env)
            if isinstance(a, Const) and isinstance(a.value, (list, tuple)):
                return Const(all(a.value) if expr.func.id == "all"
                             else any(a.value))
            return None
        if isinstance(expr, ast.Call) and isinstance(expr.func, ast.Name) \
                and expr.func.id == "format" and len(expr.args) == 2 and \
                not expr.keywords:
            a, b = self.value(expr.args[0], env), self.value(expr.args[1], env)
            if isinstance(a, Const) and isinstance(b, Const) and \
                    isinstance(a.value, (int, float, str)) and \
                    isinstance(b.value, str):
                try:
                    return Const(format(a.value, b.value))
                except (TypeError, ValueError):
                    return None
            return None
        if isinstance(expr, ast.Call) and isinstance(expr.func, ast.Name) \
                and expr.func.id == "str" and len(expr.args) == 1 and \
                not expr.keywords:
            a = self.value(expr.args[0], env)
            if isinstance(a, Const) and isinstance(a.value, (str, int)) and \
                    not isinstance(a.value, bool):
                return Const(str(a.value))
            return None
        if isinstance(expr, ast.Call) and isinstance(expr.func, ast.Name) \
                and expr.func.id in ("repr", "float") and \
                len(expr.args) == 1 and not expr.keywords:
            a = self.value(expr.args[0], env)
            if isinstance(a, Const) and isinstance(a.value, (int, float)) \
                    and not isinstance(a.value, bool):
                return Const(repr(a.value) if expr.func.id == "repr"
                             else float(a.value))
            if isinstance(a, Const) and isinstance(a.value, str) and \
                    expr.func.id == "repr":
                return Const(repr(a.value))
            return None
        if isinstance(expr, ast.BinOp) and isinstance(expr.op, ast.Add):
            a, b = self.value(expr.left, env), self.value(expr.right, env)
            if isinstance(a, Const) and isinstance(b, Const) and \
                    isinstance(a.value, str) and isinstance(b.value, str):
                return Const(a.value + b.value)
            return None
        if isinstance(expr, ast.Call) and isinstance(expr.func, ast.Name) \
                and expr.func.id == "len" and len(expr.args) == 1 and \
                not expr.keywords:
            a = self.value(expr.args[0], env)
            if isinstance(a, Const) and isinstance(a.value, str):
                return Const(len(a.value))
            return None
        if isinstance(expr, ast.Call) and \
                src(expr.func) in ("unicodedata.normalize", "normalize") and \
                len(expr.args) == 2 and not expr.keywords:
            a, b = self.value(expr.args[0], env), self.value(expr.args[1], env)
            if isinstance(a, Const) and isinstance(b, Const) and \
                    isinstance(b.value, str) and \
                    a.value in ("NFC", "NFD", "NFKC", "NFKD"):
                import unicodedata
                return Const(unicodedata.normalize(a.value, b.value))
            return None
        # split / join / list / map(lambda) over constant text
        if isinstance(expr, ast.Call) and \
                isinstance(expr.func, ast.Attribute) and \
                expr.func.attr in ("split", "rsplit") and not expr.keywords:
            recv = self.value(expr.func.value, env)
            args = [self.value(a, env) for a in expr.args]
            if isinstance(recv, Const) and isinstance(recv.value, str) and \
                    all(isinstance(a, Const) and
                        isinstance(a.value, (str, int)) for a in args):
                try:
                    return Const(getattr(recv.value, expr.func.attr)(
                        *[a.value for a in args]))
                except (TypeError, ValueError):
                    return None
            return None
        if isinstance(expr, ast.Call) and \
                isinstance(expr.func, ast.Attribute) and \
                expr.func.attr == "join" and len(expr.args) == 1 and \
                not expr.keywords:
            recv = self.value(expr.func.value, env)
            arg = self.value(expr.args[0], env)
            if isinstance(recv, Const) and isinstance(recv.value, str) and \
                    isinstance(arg, Const) and \
                    isinstance(arg.value, (list, tuple)) and \
                    all(isinstance(x, str) for x in arg.value):
                return Const(recv.value.join(arg.value))
            return None
        if isinstance(expr, ast.Call) and isinstance(expr.func, ast.Name) \
                and expr.func.id in ("list", "tuple") and \
                len(expr.args) == 1 and not expr.keywords:
            a = self.value(expr.args[0], env)
            if isinstance(a, Const) and isinstance(a.value, (list, tuple)):
                return Const(list(a.value))
            return None
        if isinstance(expr, ast.Call) and isinstance(expr.func, ast.Name) \
                and expr.func.id == "map" and len(expr.args) == 2 and \
                isinstance(expr.args[0], ast.Lambda) and \
                len(expr.args[0].args.args) == 1:
            seq = self.value(expr.args[1], env)
            lam = expr.args[0]
            if isinstance(seq, Const) and isinstance(seq.value, (list, tuple)):
                out = []
                for el in seq.value:
                    e2 = dict(env)
                    e2[lam.args.args[0].arg] = Const(el)
                    v = self.value(lam.body, e2)
                    if not isinstance(v, Const):
                        return None
                    out.append(v.value)
                return Const(out)
            return None
        if isinstance(expr, ast.Call) and \
                isinstance(expr.func, ast.Attribute) and \
                expr.func.attr in self._STR_METHODS and not expr.keywords:
            recv = self.value(expr.func.value, env)
            args = [self.value(a, env) for a in expr.args]
            if isinstance(recv, Const) and isinstance(recv.value, str) and \
                    all(isinstance(a, Const) and
                        isinstance(a.value, (str, int)) for a in args):
                try:
                    return Const(getattr(recv.value, expr.func.attr)(
                        *[a.value for a in args]))
                except (TypeError, ValueError, IndexError, KeyError):
                    return None
            return None
        if isinstance(expr, ast.Subscript):
            recv = self.value(expr.value, env)
            if not (isinstance(recv, Const) and isinstance(recv.value, str)):
                return None
            sl = expr.slice
            if isinstance(sl, ast.Slice):
                parts = []
                for part in (sl.lower, sl.upper, sl.step):
                    if part is None:
                        parts.append(None)
                        continue
                    v = self.value(part, env)
                    if not (isinstance(v, Const) and
                            isinstance(v.value, int)):
                        return None
                    parts.append(v.value)
                try:
                    return Const(recv.value[slice(*parts)])
                except ValueError:
                    return None
            v = self.value(sl, env)
            if isinstance(v, Const) and isinstance(v.value, int) and \
                    -len(recv.value) <= v.value < len(recv.value):
                return Const(recv.value[v.value])
        return None

    def truth(self, expr: ast.AST, env: Env,
              _from_value: bool = False) -> Optional[bool]:
        if isinstance(expr, ast.Constant):
            return bool(expr.value)
        key = src(expr)
        if key in env and not _from_value:
            v = env[key]
            if isinstance(v, Const):
                return bool(v.value)
            if isinstance(v, Enum):
                return True
            if isinstance(v, Kind):
                if v.tag == "none":
                    return False
                return None
        if isinstance(expr, ast.UnaryOp) and isinstance(expr.op, ast.Not):
            t = self.truth(expr.operand, env)
            return None if t is None else not t
        if isinstance(expr, ast.BoolOp):
            vals = [self.truth(v, env) for v in expr.values]
            if isinstance(expr.op, ast.And):
                if any(v is False for v in vals):
                    return False
                if all(v is True for v in vals):
                    return True
                return None
            if any(v is True for v in vals):
                return True
            if all(v is False for v in vals):
                return False
            return None
        if isinstance(expr, ast.Compare):
            left = expr.left
            result: Optional[bool] = True
            for op, right in zip(expr.ops, expr.comparators):
                r = self._compare(left, op, right, env)
                if r is False:
                    return False
                if r is None:
                    result = None
                left = right
            return result
        if isinstance(expr, ast.Call) and isinstance(expr.func, ast.Name):
            if expr.func.id == "isinstance" and len(expr.args) == 2:
                return self._isinstance(expr.args[0], expr.args[1], env)
        if isinstance(expr, ast.IfExp):
            c = self.truth(expr.test, env)
            if c is True:
                return self.truth(expr.body, env)
            if c is False:
                return self.truth(expr.orelse, env)
            a, b = self.truth(expr.body, env), self.truth(expr.orelse, env)
            if a is not None and a == b:
                return a
        if isinstance(expr, (ast.Call, ast.Subscript, ast.BinOp)):
            v = self.value(expr, env) if isinstance(expr, ast.Call) and \
                isinstance(expr.func, ast.Name) and \
                expr.func.id in ("all", "any", "len") \
                else self._fold_text(expr, env)
            if isinstance(v, Const):
                return bool(v.value)
        return None

    def _isinstance(self, obj: ast.AST, types: ast.AST,
                    env: Env) -> Optional[bool]:
        v = env.get(src(obj))
        if isinstance(v, Const) and isinstance(
                v.value, (list, dict, str, int, float, tuple, set,
                          type(None))):
            # a constant of a builtin type against class names: builtin
            # names are decided by Python, any other class is not matched
            # by a plain builtin value
            names = [src(e).split(".")[-1] for e in (
                types.elts if isinstance(types, ast.Tuple) else [types])]
            import builtins
            hit = False
            for n in names:
                t = getattr(builtins, n, None)
                if isinstance(t, type) and isinstance(v.value, t):
                    hit = True
            return hit
        if not isinstance(v, Kind):
            return None
        names = [src(e).split(".")[-1] for e in (
            types.elts if isinstance(types, ast.Tuple) else [types])]
        mine = self.isa.get(v.tag)
        if mine is None:
            return None
        return any(n in mine for n in names)

    def _compare(self, left: ast.AST, op: ast.cmpop, right: ast.AST,
                 env: Env) -> Optional[bool]:
        lv, rv = self.value(left, env), self.value(right, env)
        if isinstance(op, (ast.In, ast.NotIn)):
            if isinstance(lv, Const) and isinstance(rv, Const) and \
                    isinstance(lv.value, str) and isinstance(rv.value, str):
                hit_s = lv.value in rv.value
                return hit_s if isinstance(op, ast.In) else not hit_s
            if isinstance(lv, Const) and isinstance(rv, Const) and \
                    isinstance(rv.value, (list, tuple)) and \
                    not isinstance(right, (ast.List, ast.Tuple, ast.Set)):
                hit_l = lv.value in rv.value
                return hit_l if isinstance(op, ast.In) else not hit_l
            if lv is None or not isinstance(right, (ast.List, ast.Tuple,
                                                    ast.Set)):
                return None
            members = [self.value(e, env) for e in right.elts]
            if any(m is None for m in members):
                hit: Optional[bool] = True if any(
                    m is not None and self._same(lv, m) for m in members
                ) else None
            else:
                hit = any(self._same(lv, m) for m in members)
            if hit is None:
                return None
            return hit if isinstance(op, ast.In) else not hit
        # ``type(x) is int`` against a kind tag
        if isinstance(left, ast.Call) and isinstance(left.func, ast.Name) \
                and left.func.id == "type" and len(left.args) == 1 and \
                isinstance(op, (ast.Is, ast.IsNot, ast.Eq, ast.NotEq)):
            kv = env.get(src(left.args[0]))
            if isinstance(kv, Kind) and isinstance(right, ast.Name):
                same = kv.tag == right.id
                return same if isinstance(op, (ast.Is, ast.Eq)) else not same
        if isinstance(lv, Kind) or isinstance(rv, Kind):
            # ``x is None`` with a kind tag
            k, o = (lv, rv) if isinstance(lv, Kind) else (rv, lv)
            if isinstance(o, Const) and o.value is None and \
                    isinstance(op, (ast.Is, ast.IsNot, ast.Eq, ast.NotEq)):
                same = k.tag == "none"
                return same if isinstance(op, (ast.Is, ast.Eq)) else not same
            return None
        if lv is None or rv is None:
            return None
        if isinstance(op, (ast.Is, ast.Eq)):
            return self._same(lv, rv)
        if isinstance(op, (ast.IsNot, ast.NotEq)):
            return not self._same(lv, rv)
        if isinstance(lv, Const) and isinstance(rv, Const):
            try:
                if isinstance(op, ast.Lt):
                    return lv.value < rv.value
                if isinstance(op, ast.LtE):
                    return lv.value <= rv.value
                if isinstance(op, ast.Gt):
                    return lv.value > rv.value
                if isinstance(op, ast.GtE):
                    return lv.value >= rv.value
            except TypeError:
                return None
        return None

    @staticmethod
    def _same(a: Any, b: Any) -> bool:
        if isinstance(a, Enum) and isinstance(b, Enum):
            return a.cls == b.cls and a.member == b.member
        if isinstance(a, Const) and isinstance(b, Const):
            return type(a.value) is type(b.value) and a.value == b.value
        return False

    # -- statements ----------------------------------------------------
    def specialise(self, stmts: List[ast.stmt], env: Env,
                   pinned: Optional[Iterable[str]] = None) -> List[ast.stmt]:
        """``pinned`` names keep their binding across (re)assignments: used
        to specialise w.r.t. the *result* of an assignment such as
        ``typed = convert(raw)`` whose kind is the case being analysed."""
        self._pinned = set(pinned or ())
        self.returned = []
        self.stored = []
        self.calls = []
        res, self.final_env = self._block(stmts, dict(env))
        self._pinned = set()
        return res

    _pinned: Set[str] = set()
    #: (return statement, abstract value, abstract values of its call
    #: arguments) for every Return reached by the last specialise()
    returned: List[Tuple[ast.stmt, Any, List[Any]]] = []
    #: (assignment to an attribute, abstract value stored) likewise
    stored: List[Tuple[ast.stmt, Any]] = []
    #: names of callees whose argument values are to be recorded, and the
    #: record: (call, positional values, keyword values)
    #: bindings at the end of the last specialise() (top-level block)
    final_env: Env = {}
    watch_calls: Set[str] = set()
    calls: List[Tuple[ast.Call, List[Any], Dict[str, Any]]] = []

    def _kill(self, env: Env, names: Iterable[str]) -> None:
        names = set(names) - self._pinned
        if not names:
            return
        for key in list(env):
            try:
                tree = ast.parse(key, mode="eval")
            except SyntaxError:
                continue
            if any(isinstance(n, ast.Name) and n.id in names
                   for n in ast.walk(tree)):
                del env[key]

    def _assign(self, stmt: ast.stmt, env: Env) -> None:
        if isinstance(stmt, ast.Assign) and len(stmt.targets) == 1 and \
                isinstance(stmt.targets[0], ast.Name):
            if stmt.targets[0].id in self._pinned:
                return
            v = self.value(stmt.value, env)
            self._kill(env, [stmt.targets[0].id])
            if v is not None:
                env[stmt.targets[0].id] = v
            return
        if isinstance(stmt, ast.AnnAssign) and \
                isinstance(stmt.target, ast.Name):
            if stmt.target.id in self._pinned:
                return
            v = self.value(stmt.value, env) if stmt.value is not None \
                else None
            self._kill(env, [stmt.target.id])
            if v is not None:
                env[stmt.target.id] = v
            return
        if isinstance(stmt, ast.AugAssign) and \
                isinstance(stmt.target, ast.Name) and \
                isinstance(stmt.op, ast.Add) and \
                stmt.target.id not in self._pinned:
            cur = env.get(stmt.target.id)
            inc = self.value(stmt.value, env)
            self._kill(env, [stmt.target.id])
            if isinstance(cur, Const) and isinstance(inc, Const) and \
                    type(cur.value) is type(inc.value) and \
                    isinstance(cur.value, (str, int)):
                env[stmt.target.id] = Const(cur.value + inc.value)
            return
        self._kill(env, assigned_names(stmt, mutation=False))

    def _block(self, stmts: List[ast.stmt],
               env: Env) -> Tuple[List[ast.stmt], Env]:
        out: List[ast.stmt] = []
        for stmt in stmts:
            if isinstance(stmt, ast.If):
                t = self.truth(stmt.test, env)
                if t is True:
                    body, env = self._block(stmt.body, env)
                    out.extend(body)
                elif t is False:
                    body, env = self._block(stmt.orelse, env)
                    out.extend(body)
                else:
                    e1, e2 = dict(env), dict(env)
                    self._refine(stmt.test, True, e1)
                    self._refine(stmt.test, False, e2)
                    b1, e1 = self._block(stmt.body, e1)
                    b2, e2 = self._block(stmt.orelse, e2)
                    new = ast.If(test=stmt.test, body=b1 or [ast.Pass()],
                                 orelse=b2)
                    ast.copy_location(new, stmt)
                    new._orig = stmt  # type: ignore[attr-defined]
                    new._parent = getattr(stmt, "_parent", None)
                    out.append(new)
                    t1, t2 = terminates(b1), terminates(b2)
                    if t1 and not t2:
                        env = e2
                    elif t2 and not t1:
                        env = e1
                    else:
                        env = {k: v for k, v in e1.items()
                               if k in e2 and repr(e2[k]) == repr(v)}
                if out and terminates(out):
                    break
                continue
            if isinstance(stmt, (ast.For, ast.AsyncFor, ast.While)):
                self._kill(env, assigned_names(stmt, mutation=False))
                benv = dict(env)
                if isinstance(stmt, ast.While):
                    self._refine(stmt.test, True, benv)
                body, _ = self._block(stmt.body, benv)
                orelse, _ = self._block(stmt.orelse, dict(env))
                new = copy.copy(stmt)
                new.body = body or [ast.Pass()]
                new.orelse = orelse
                new._orig = stmt  # type: ignore[attr-defined]
                out.append(new)
                continue
            if isinstance(stmt, ast.Try):
                benv = dict(env)
                body, benv = self._block(stmt.body, benv)
                self._kill(env, assigned_names(stmt, mutation=False))
                new = copy.copy(stmt)
                new.body = body or [ast.Pass()]
                handlers = []
                for h in stmt.handlers:
                    hb, _ = self._block(h.body, dict(env))
                    nh = copy.copy(h)
                    nh.body = hb or [ast.Pass()]
                    nh._orig = h  # type: ignore[attr-defined]
                    handlers.append(nh)
                new.handlers = handlers
                ob, _ = self._block(stmt.orelse, dict(env))
                fb, _ = self._block(stmt.finalbody, dict(env))
                new.orelse, new.finalbody = ob, fb
                new._orig = stmt  # type: ignore[attr-defined]
                out.append(new)
                continue
            if isinstance(stmt, (ast.With, ast.AsyncWith)):
                body, env = self._block(stmt.body, env)
                new = copy.copy(stmt)
                new.body = body or [ast.Pass()]
                new._orig = stmt  # type: ignore[attr-defined]
                out.append(new)
                continue
            out.append(stmt)
            if isinstance(stmt, ast.Assign) and len(stmt.targets) == 1 and \
                    isinstance(stmt.targets[0], ast.Attribute):
                self.stored.append((stmt, self.value(stmt.value, env)))
            if self.watch_calls and isinstance(
                    stmt, (ast.Assign, ast.AnnAssign, ast.Expr, ast.Return)):
                for c in ast.walk(stmt):
                    if isinstance(c, ast.Call) and \
                            src(c.func).split(".")[-1] in self.watch_calls:
                        self.calls.append((
                            c, [self.value(a, env) for a in c.args],
                            {k.arg: self.value(k.value, env)
                             for k in c.keywords if k.arg}))
            if isinstance(stmt, ast.Return) and stmt.value is not None:
                v = self.value(stmt.value, env)
                argv = [self.value(a, env) for a in stmt.value.args] \
                    if isinstance(stmt.value, ast.Call) else []
                self.returned.append((stmt, v, argv))
            if isinstance(stmt, (ast.Return, ast.Raise, ast.Continue,
                                 ast.Break)):
                break
            self._assign(stmt, env)
        return out, env

    def _refine(self, test: ast.AST, pol: bool, env: Env) -> None:
        """Learn bindings from an undecided test (``x is E.M`` etc.)."""
        if isinstance(test, ast.UnaryOp) and isinstance(test.op, ast.Not):
            self._refine(test.operand, not pol, env)
            return
        if isinstance(test, ast.BoolOp):
            if (isinstance(test.op, ast.And) and pol) or \
                    (isinstance(test.op, ast.Or) and not pol):
                for v in test.values:
                    self._refine(v, pol, env)
            return
        if isinstance(test, ast.Compare) and len(test.ops) == 1:
            op = test.ops[0]
            positive = (isinstance(op, (ast.Is, ast.Eq)) and pol) or \
                (isinstance(op, (ast.IsNot, ast.NotEq)) and not pol)
            if positive:
                lv = self.value(test.left, env)
                rv = self.value(test.comparators[0], env)
                if lv is None and isinstance(rv, (Enum, Const)) and \
                        isinstance(test.left, (ast.Name, ast.Attribute)):
                    env[src(test.left)] = rv
                elif rv is None and isinstance(lv, (Enum, Const)) and \
                        isinstance(test.comparators[0],
                                   (ast.Name, ast.Attribute)):
                    env[src(test.comparators[0])] = lv
            return
        if isinstance(test, (ast.Name, ast.Attribute)) and src(test) not in env:
            if not pol:
                pass  # falsy: could be None/0/""/empty; leave unknown


def residual_nodes(stmts: List[ast.stmt]) -> Iterable[ast.AST]:
    """All AST nodes of a residual (nested defs excluded)."""
    for s in stmts:
        yield from walk_local(s)


def calls_in(stmts: List[ast.stmt]) -> List[ast.Call]:
    return [n for n in residual_nodes(stmts) if isinstance(n, ast.Call)]


def show(stmts: List[ast.stmt]) -> str:
    return "\n".join(ast.unparse(s) for s in stmts)
