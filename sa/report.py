"""Findings, known findings, evidence and the check driver."""
from __future__ import annotations

import ast
import json
import os
import re
import sys
import time
import traceback
from typing import Any, Callable, Dict, List, Optional, Tuple

from .model import AnalysisError, FuncInfo, Program, src

VERIF = os.path.dirname(os.path.dirname(os.path.abspath(__file__)))
KNOWN_FILE = os.path.join(VERIF, "known_findings.json")
EVIDENCE_DIR = os.path.join(VERIF, "evidence")


def norm_key(text: str) -> str:
    """Normalise a construct's text for use in a finding key."""
    return re.sub(r"\s+", " ", text).strip()


class Finding:
    def __init__(self, rule: str, func: str, construct: str, where: str,
                 message: str, facts: Optional[Dict[str, Any]] = None) -> None:
        self.rule = rule
        self.func = func
        self.construct = norm_key(construct)
        self.where = where
        self.message = message
        self.facts = facts or {}

    @property
    def key(self) -> str:
        return "{}|{}|{}".format(self.rule, self.func, self.construct)

    def to_json(self) -> Dict[str, Any]:
        return {"rule": self.rule, "function": self.func,
                "construct": self.construct, "where": self.where,
                "message": self.message, "facts": self.facts,
                "key": self.key}


class Check:
    """Context handed to a property's rules."""

    def __init__(self, prop: str, prog: Program, tier: str) -> None:
        self.prop = prop
        self.prog = prog
        self.tier = tier
        self.findings: List[Finding] = []
        self.obligations = 0
        self.discharged = 0
        self.evaluations = 0
        self.nontrivial: set = set()
        self.samples: List[Any] = []
        self.rules: Dict[str, Dict[str, Any]] = {}
        self.functions_analysed: set = set()
        self.notes: List[str] = []
        self.declined: List[str] = []
        self.trusted: List[str] = []
        self._sample_per_rule: Dict[str, int] = {}

    # -- bookkeeping ---------------------------------------------------
    def rule(self, rid: str, text: str, floor: int = 0) -> None:
        if rid in self.rules and self.rules[rid]["text"] != text:
            raise AnalysisError("rule id {} registered twice".format(rid))
        if rid in self.rules:
            return
        self.rules[rid] = {"text": text, "instances": 0, "violations": 0,
                           "floor": floor}

    def analysed(self, fi: FuncInfo) -> None:
        self.functions_analysed.add(fi.short)

    def ok(self, rid: str, fi: Optional[FuncInfo], node: Optional[ast.AST],
           construct: str, why: str, nontrivial: bool = True) -> None:
        """Record an obligation that was discharged."""
        self._instance(rid)
        self.obligations += 1
        self.discharged += 1
        self.evaluations += 1
        fname = fi.short if fi else "-"
        if nontrivial:
            self.nontrivial.add((rid, fname, norm_key(construct)))
        if self._sample_per_rule.get(rid, 0) < 3:
            self._sample_per_rule[rid] = self._sample_per_rule.get(rid, 0) + 1
            self.samples.append({
                "rule": rid, "function": fname,
                "where": self.where(fi, node),
                "construct": norm_key(construct)[:200],
                "verdict": "holds", "by": why[:300]})

    def fail(self, rid: str, fi: Optional[FuncInfo], node: Optional[ast.AST],
             construct: str, message: str,
             facts: Optional[Dict[str, Any]] = None) -> None:
        self._instance(rid)
        self.rules[rid]["violations"] += 1
        self.obligations += 1
        self.evaluations += 1
        fname = fi.short if fi else "-"
        self.nontrivial.add((rid, fname, norm_key(construct)))
        self.findings.append(Finding(
            rid, fname, construct, self.where(fi, node), message, facts))

    def count(self, rid: str, n: int = 1) -> None:
        """Instances matched without a per-instance obligation record."""
        if rid not in self.rules:
            raise AnalysisError("unknown rule id " + rid)
        self.rules[rid]["instances"] += n
        self.evaluations += n

    def _instance(self, rid: str) -> None:
        if rid not in self.rules:
            raise AnalysisError("unknown rule id " + rid)
        self.rules[rid]["instances"] += 1

    @staticmethod
    def where(fi: Optional[FuncInfo], node: Optional[ast.AST]) -> str:
        if fi is None:
            return "-"
        line = getattr(node, "lineno", None) if node is not None else None
        if line is None:
            line = fi.node.lineno
        return "{}:{}".format(fi.module.relpath, line)

    def _known_keys(self) -> set:
        return {k["key"] for k in known_for(self.prop)}

    def check_floors(self) -> None:
        if any(info["violations"] > 0 for info in self.rules.values()):
            # the run already ends in a verdict (VIOLATION or a listed
            # finding); a construct that a reported change removed must not
            # turn that verdict into an analysis error.  Known findings are
            # present on the unchanged tree too, so floors are calibrated
            # with them counted and still apply below.
            if any(f.key not in self._known_keys() for f in self.findings):
                return
        for rid, info in self.rules.items():
            if info["violations"] > 0:
                continue   # the rule found its subjects and reports them
            if info["instances"] < info["floor"]:
                raise AnalysisError(
                    "rule {} matched {} instance(s), below its floor of {} "
                    "(the rule lost its subjects)".format(
                        rid, info["instances"], info["floor"]))


def load_known() -> List[Dict[str, Any]]:
    if not os.path.exists(KNOWN_FILE):
        return []
    with open(KNOWN_FILE, "r", encoding="utf-8") as fh:
        return json.load(fh).get("findings", [])


def known_for(prop: str) -> List[Dict[str, Any]]:
    """Known findings that apply to a run of ``prop``: its own, and those of
    the properties it borrows rules from (a borrowed rule keeps its owner's
    rule id, so the key is the same)."""
    from .borrow import load_table
    owners = set(load_table().get(prop, {}))
    return [k for k in load_known()
            if k.get("status") == "known" and
            (k.get("property") == prop or
             (k.get("property") in owners and
              k.get("key", "").split("-")[0] == k.get("property")))]


RuleFn = Callable[[Check], None]


def run_check(prop: str, tier: str, rule_fn: RuleFn, meta: Dict[str, Any],
              prog: Optional[Program] = None, quiet: bool = False,
              write: bool = True) -> Tuple[int, Check]:
    """Run one property's rules; print the verdict; write evidence.
    Returns (exit code, check)."""
    t0 = time.time()
    if prog is None:
        prog = Program()
    chk = Check(prop, prog, tier)
    rule_fn(chk)
    if not os.environ.get("VERIF_NO_BORROW"):
        from .borrow import run_borrowed
        run_borrowed(chk)
    chk.check_floors()
    known = known_for(prop)
    known_keys = {k["key"]: k for k in known}
    new: List[Finding] = []
    hit: List[Tuple[Finding, Dict[str, Any]]] = []
    seen_keys: set = set()
    for f in chk.findings:
        if f.key in seen_keys:
            continue    # same construct at several lines: report once
        seen_keys.add(f.key)
        if f.key in known_keys:
            hit.append((f, known_keys[f.key]))
        else:
            new.append(f)
    out = sys.stdout
    if not quiet:
        for f, k in hit:
            print("KNOWN-FINDING: property={} {} {} {} -- {}".format(
                prop, f.rule, f.where, f.construct[:120], k.get("what", "")),
                file=out)
    replay_dir = os.path.join(EVIDENCE_DIR, "replay")
    if write:
        os.makedirs(replay_dir, exist_ok=True)
        for fn in os.listdir(replay_dir):
            if fn.startswith(prop + "-"):
                os.remove(os.path.join(replay_dir, fn))
    for i, f in enumerate(new):
        path = os.path.join(replay_dir, "{}-{}.json".format(prop, i))
        if write:
            with open(path, "w", encoding="utf-8") as fh:
                json.dump({"property": prop, "finding": f.to_json(),
                           "replay": "./check {} --replay {}".format(
                               prop, path)}, fh, indent=1)
        if not quiet:
            print("VIOLATION property={} replay={}".format(prop, path),
                  file=out)
            print("  rule      : {} -- {}".format(
                f.rule, chk.rules[f.rule]["text"]), file=out)
            print("  where     : {} in {}".format(f.where, f.func), file=out)
            print("  construct : {}".format(f.construct[:300]), file=out)
            print("  diagnosis : {}".format(f.message), file=out)
    wall = time.time() - t0
    if write:
        write_evidence(chk, meta, tier, wall, new, hit)
    if not quiet:
        print("{} [{}] rules={} instances={} obligations={} discharged={} "
              "new-findings={} known-findings={} functions={} wall={:.2f}s"
              .format(prop, tier, len(chk.rules),
                      sum(r["instances"] for r in chk.rules.values()),
                      chk.obligations, chk.discharged, len(new), len(hit),
                      len(chk.functions_analysed), wall), file=out)
        for rid, info in chk.rules.items():
            print("  {:<10} instances={:<4} violations={:<3} {}".format(
                rid, info["instances"], info["violations"],
                info["text"][:100]), file=out)
    return (1 if new else 0), chk


def write_evidence(chk: Check, meta: Dict[str, Any], tier: str, wall: float,
                   new: List[Finding],
                   hit: List[Tuple[Finding, Dict[str, Any]]],
                   extra: Optional[Dict[str, Any]] = None) -> None:
    os.makedirs(EVIDENCE_DIR, exist_ok=True)
    samples = list(chk.samples)
    for f in (new + [h[0] for h in hit])[:10]:
        samples.append({"rule": f.rule, "function": f.func,
                        "where": f.where, "construct": f.construct[:200],
                        "verdict": "violated", "diagnosis": f.message[:300]})
    coverage: Dict[str, Any] = {
        "explanation": meta.get("explanation", ""),
        "evaluations": chk.evaluations,
        "distinct_nontrivial": len(chk.nontrivial),
        "rule": ("rule instances are enumerated from the AST of the current "
                 "/repo tree; an instance is non-trivial when the rule had "
                 "a real obligation on it (a guard to find, a table cell "
                 "to match); distinct = distinct (rule, function, "
                 "normalised construct) triples"),
        "samples": samples[:40],
        "obligations": chk.obligations,
        "discharged": chk.discharged,
        "checker_cmd": "./check {} --tier {}".format(chk.prop, tier),
        "trusted_base": chk.trusted or meta.get("trusted_base", []),
        "rules": chk.rules,
        "functions_analysed": sorted(chk.functions_analysed),
        "modules_parsed": len(chk.prog.modules),
        "declined_clauses": meta.get("declined", []),
        "known_findings_hit": [
            {"key": f.key, "where": f.where, "what": k.get("what", "")}
            for f, k in hit],
        "new_findings": [f.to_json() for f in new],
        "notes": chk.notes,
        "exhaustive": True,
    }
    if extra:
        coverage.update(extra)
    doc = {
        "property_id": chk.prop,
        "tier": tier,
        "seed": int(os.environ.get("VERIF_SEED", "0") or 0),
        "level": "other",
        "coverage": coverage,
        "assumptions": meta.get("assumptions", []),
        "wall_s": round(wall, 3),
        "violations": len(new),
    }
    path = os.path.join(EVIDENCE_DIR, chk.prop + ".json")
    with open(path, "w", encoding="utf-8") as fh:
        json.dump(doc, fh, indent=1, default=str)
