"""Small-domain evaluation of index guards with the partial evaluator."""
from __future__ import annotations

import ast
from typing import List, Optional, Tuple

from .model import src
from .peval import Const, PEval


def index_guard_table(test: ast.AST, cont: str, idx: str, negated: bool = False,
                      n_max: int = 4,
                      derived: Optional[Tuple[str, ast.AST]] = None
                      ) -> Tuple[List[str], List[str], bool]:
    """Evaluate ``test`` (a guard for ``cont[idx]``) for len(cont) in
    0..n_max and idx in -n-2..n+2.  Returns (valid indexes rejected,
    invalid indexes accepted, fully decided?)."""
    pe = PEval()
    rejected: List[str] = []
    accepted: List[str] = []
    decided = True
    for n in range(0, n_max + 1):
        for i in range(-2 * n - 2, 2 * n + 3):
            env = {"len({})".format(cont): Const(n)}
            if derived is None:
                env[idx] = Const(i)
            else:
                # ``idx`` is computed from the requested index ``derived[0]``
                # by the expression ``derived[1]`` (e.g. a normalisation of
                # negative positions): the *request* ranges over the domain
                env[derived[0]] = Const(i)
                v = pe.value(derived[1], env)
                if not isinstance(v, Const):
                    decided = False
                    continue
                env[idx] = v
            t = pe.truth(test, env)
            if t is None:
                decided = False
                continue
            if negated:
                t = not t
            valid = -n <= i < n
            if valid and not t:
                rejected.append("len={} idx={}".format(n, i))
            if not valid and t:
                accepted.append("len={} idx={}".format(n, i))
    return rejected, accepted, decided


def guards_for(fn_node: ast.AST, cont: str, idx: str
               ) -> List[Tuple[ast.If, ast.AST, bool]]:
    """(if node, guard expression, negated?) for every If whose test (or a
    conjunct of it) relates len(cont) and idx."""
    out = []
    want_len = "len({})".format(cont)
    for n in ast.walk(fn_node):
        if not isinstance(n, ast.If):
            continue
        t = n.test
        neg = False
        if isinstance(t, ast.UnaryOp) and isinstance(t.op, ast.Not):
            t, neg = t.operand, True
        cands = [t]
        if isinstance(t, ast.BoolOp) and isinstance(t.op, ast.And):
            cands = list(t.values)
        for c in cands:
            if isinstance(c, ast.Compare):
                names = {x.id for x in ast.walk(c) if isinstance(x, ast.Name)}
                if want_len in src(c) and idx in names:
                    out.append((n, c, neg))
    return out
