"""isinstance ladders: an arm that tests a subclass after an arm that
tests its base class can never run.

Known external hierarchies (ruamel / stdlib) are listed explicitly; classes
of the analysed program are resolved through its own class table."""
from __future__ import annotations

import ast
from typing import Dict, List, Optional, Tuple

from .model import FuncInfo, Program, parent, src, walk_local

EXTERNAL_BASES: Dict[str, Tuple[str, ...]] = {
    # subclass -> bases (transitively closed where it matters)
    "CommentedMap": ("dict", "ordereddict", "Mapping", "MutableMapping"),
    "CommentedSeq": ("list", "Sequence", "MutableSequence"),
    "CommentedSet": ("MutableSet",),
    "OrderedDict": ("dict",),
    "bool": ("int",),
    "PlainScalarString": ("ScalarString", "str"),
    "DoubleQuotedScalarString": ("ScalarString", "str"),
    "SingleQuotedScalarString": ("ScalarString", "str"),
    "FoldedScalarString": ("ScalarString", "str"),
    "LiteralScalarString": ("ScalarString", "str"),
    "ScalarString": ("str",),
    "ScalarFloat": ("float",),
    "ScalarInt": ("int",),
    "ScalarBoolean": ("int",),
    "datetime": ("date",),
    "TimeStamp": ("datetime", "date"),
}


def _classes(t: ast.AST) -> List[str]:
    elts = t.elts if isinstance(t, ast.Tuple) else [t]
    return [src(e).split(".")[-1] for e in elts]


def is_sub(prog: Program, sub: str, base: str) -> bool:
    if sub == base:
        return False
    if base in EXTERNAL_BASES.get(sub, ()):
        return True
    if prog.has_class(sub):
        try:
            ci = prog.class_by_name(sub)
        except Exception:  # pylint: disable=broad-except
            return False
        if prog.is_subclass(ci.qual, base):
            return True
        # through an external base of a program class
        for b in ci.bases:
            bn = b.split(".")[-1]
            if bn == base or base in EXTERNAL_BASES.get(bn, ()):
                return True
            if bn != sub and prog.has_class(bn) and is_sub(prog, bn, base):
                return True
    return False


def ladders(fi: FuncInfo) -> List[List[Tuple[ast.If, str, List[str]]]]:
    """if/elif chains whose arms are plain ``isinstance(subject, T)`` tests
    (other arms are kept as separators with an empty class list)."""
    out = []
    for n in walk_local(fi.node):
        if not isinstance(n, ast.If):
            continue
        p = parent(n)
        if isinstance(p, ast.If) and p.orelse == [n]:
            continue   # not the head of its chain
        chain: List[Tuple[ast.If, str, List[str]]] = []
        cur: Optional[ast.If] = n
        while cur is not None:
            t = cur.test
            if isinstance(t, ast.Call) and isinstance(t.func, ast.Name) and \
                    t.func.id == "isinstance" and len(t.args) == 2:
                chain.append((cur, src(t.args[0]), _classes(t.args[1])))
            else:
                chain.append((cur, "", []))
            nxt = cur.orelse
            cur = nxt[0] if len(nxt) == 1 and isinstance(nxt[0], ast.If) \
                else None
        if sum(1 for c in chain if c[2]) >= 2:
            out.append(chain)
    return out


def shadowed_arms(prog: Program, fi: FuncInfo
                  ) -> Tuple[List[Tuple[ast.If, str]], int]:
    """(arms that can never run, number of ladder arms examined)."""
    bad: List[Tuple[ast.If, str]] = []
    n = 0
    for chain in ladders(fi):
        for j, (arm, subj, classes) in enumerate(chain):
            if not classes:
                continue
            n += 1
            for i in range(j):
                _, subj_i, classes_i = chain[i]
                if subj_i != subj or not classes_i:
                    continue
                covered = [c for c in classes
                           if any(c == b or is_sub(prog, c, b)
                                  for b in classes_i)]
                if covered:
                    bad.append((arm, "isinstance({}, {}) comes after "
                                "isinstance({}, {}), which already accepts "
                                "every {}: for that class this arm never "
                                "runs".format(
                                    subj, "/".join(classes), subj,
                                    "/".join(classes_i),
                                    "/".join(covered))))
                    break
    return bad, n
