"""Partial operations (operations that raise on some operands) and the guard
idioms that discharge them.

The library model (trusted base) is the table ``RAISERS`` below: which
builtin / stdlib operations may raise which exception classes.
"""
from __future__ import annotations

import ast
from typing import Dict, Iterable, List, Optional, Set, Tuple

from .model import (FUNC_TYPES, FuncInfo, Program, ancestors, enclosing_stmt,
                    parent, src, walk_local)
from .guards import (Fact, MUTATORS, assigned_names, facts_at, implies_ge0,
                     linear, names_in, root_name)

LIBRARY_MODEL = [
    "seq[i] -> IndexError unless -len<=i<len; map[k] -> KeyError unless k in "
    "map; slices never raise",
    "list.pop()/deque.pop() -> IndexError on empty; dict.pop(k) without "
    "default -> KeyError",
    "int(s)/float(s) -> ValueError on non-numeric text",
    "re.compile(text) -> re.error on malformed patterns, OverflowError on "
    "over-large repetition counts, RecursionError on very deep nesting",
    "seq.index(v)/seq.remove(v) -> ValueError when absent",
    "Enum[name] -> KeyError when name is no member",
    "next(it) without default -> StopIteration",
    "ast.literal_eval -> ValueError, SyntaxError, TypeError, MemoryError, "
    "RecursionError",
    "a < b (ordering) -> TypeError for unorderable operand types",
    "a in b -> TypeError when b is None / not a container",
    "hashing a list/dict/set (dict key, set member, `in` on dict) -> "
    "TypeError",
]


class Site:
    def __init__(self, kind: str, node: ast.AST, fi: FuncInfo,
                 exc: Tuple[str, ...], container: Optional[ast.AST] = None,
                 index: Optional[ast.AST] = None) -> None:
        self.kind = kind
        self.node = node
        self.fi = fi
        self.exc = exc
        self.container = container
        self.index = index

    @property
    def text(self) -> str:
        return src(self.node)

    def __repr__(self) -> str:
        return "<{} {} @{}:{}>".format(self.kind, self.text[:60],
                                       self.fi.short,
                                       getattr(self.node, "lineno", "?"))


def in_annotation(node: ast.AST) -> bool:
    child = node
    for anc in ancestors(node):
        if isinstance(anc, ast.AnnAssign) and anc.annotation is child:
            return True
        if isinstance(anc, ast.arg):
            return True
        if isinstance(anc, FUNC_TYPES) and anc.returns is child:
            return True
        child = anc
    return False


def find_sites(fi: FuncInfo) -> List[Site]:
    out: List[Site] = []
    for n in walk_local(fi.node):
        if isinstance(n, ast.Subscript) and not in_annotation(n):
            if isinstance(n.slice, ast.Slice):
                continue
            if isinstance(n.ctx, ast.Load):
                out.append(Site("subscript", n, fi,
                                ("IndexError", "KeyError"), n.value, n.slice))
            elif isinstance(n.ctx, ast.Del):
                out.append(Site("del", n, fi,
                                ("IndexError", "KeyError"), n.value, n.slice))
        elif isinstance(n, ast.Call):
            f = n.func
            fs = src(f)
            if isinstance(f, ast.Name) and f.id in ("int", "float") and n.args:
                out.append(Site(f.id, n, fi, ("ValueError",), None,
                                n.args[0]))
            elif isinstance(f, ast.Name) and f.id == "next" and \
                    len(n.args) == 1:
                out.append(Site("next", n, fi, ("StopIteration",), None,
                                n.args[0]))
            elif fs in ("re.compile", "re.search", "re.match", "re.fullmatch",
                        "re.sub", "re.findall") and n.args:
                # an over-large repetition count (`a{99999999999}`) is
                # reported as OverflowError, not re.error; thousands of
                # nested groups exhaust the compiler's recursion
                out.append(Site("regex", n, fi,
                                ("re.error", "OverflowError",
                                 "RecursionError"), None, n.args[0]))
            elif fs.endswith("literal_eval"):
                out.append(Site("literal_eval", n, fi,
                                ("ValueError", "SyntaxError", "TypeError",
                                 "RecursionError"),
                                None,
                                n.args[0] if n.args else None))
            elif isinstance(f, ast.Attribute):
                if f.attr == "pop" and not n.args and not n.keywords:
                    out.append(Site("pop", n, fi, ("IndexError",), f.value))
                elif f.attr == "pop" and len(n.args) == 1 and \
                        src(f.value) != "kwargs":
                    out.append(Site("pop_key", n, fi,
                                    ("KeyError", "IndexError"),
                                    f.value, n.args[0]))
                elif f.attr == "popleft" and not n.args:
                    out.append(Site("pop", n, fi, ("IndexError",), f.value))
                elif f.attr in ("index", "remove") and len(n.args) >= 1 \
                        and not isinstance(f.value, ast.Constant):
                    out.append(Site("index", n, fi, ("ValueError",),
                                    f.value, n.args[0]))
    return out


# --------------------------------------------------------------------------
# Discharge idioms
# --------------------------------------------------------------------------
def handler_names(h: ast.ExceptHandler) -> List[str]:
    if h.type is None:
        return ["BaseException"]
    elts = h.type.elts if isinstance(h.type, ast.Tuple) else [h.type]
    return [src(e) for e in elts]


CATCHES = {
    "Exception": None,       # everything
    "BaseException": None,
    "LookupError": {"IndexError", "KeyError"},
    "ArithmeticError": {"ZeroDivisionError", "OverflowError"},
}


def caught_by(name: str, handler: str) -> bool:
    if handler == name:
        return True
    if handler in CATCHES:
        return CATCHES[handler] is None or name in CATCHES[handler]  # type: ignore
    return False


def enclosing_handlers(node: ast.AST) -> List[ast.ExceptHandler]:
    """Handlers of every ``try`` whose *body* contains ``node``."""
    out: List[ast.ExceptHandler] = []
    child = node
    for anc in ancestors(node):
        if isinstance(anc, FUNC_TYPES + (ast.Lambda,)):
            break
        if isinstance(anc, ast.Try) and child in anc.body:
            out.extend(anc.handlers)
        child = anc
    return out


def handled(node: ast.AST, excs: Iterable[str]) -> Optional[str]:
    """All exception classes are caught by enclosing handlers."""
    hs = enclosing_handlers(node)
    covered = []
    for e in excs:
        hit = None
        for h in hs:
            if any(caught_by(e, hn) for hn in handler_names(h)):
                hit = h
                break
        if hit is None:
            return None
        covered.append("{}@{}".format(e, hit.lineno))
    return "handler " + ",".join(covered)


def _isinstance_kinds(facts: List[Fact], expr_src: str) -> Set[str]:
    kinds: Set[str] = set()
    for f in facts:
        e = f.expr
        if f.kind == "cond" and f.pol and isinstance(e, ast.Call) and \
                isinstance(e.func, ast.Name) and e.func.id == "isinstance" \
                and len(e.args) == 2 and src(e.args[0]) == expr_src:
            t = e.args[1]
            for el in (t.elts if isinstance(t, ast.Tuple) else [t]):
                kinds.add(src(el).split(".")[-1])
    return kinds


MAP_TYPES = {"dict", "CommentedMap", "OrderedDict", "ryod", "ordereddict"}
SEQ_TYPES = {"list", "CommentedSeq", "tuple", "str", "deque"}


def _loop_index_proof(facts: List[Fact], cont: str, idx: str,
                      use: ast.AST) -> Optional[str]:
    """``idx`` ranges over the indexes of ``cont`` by a loop header."""
    for f in facts:
        if f.kind != "loop":
            continue
        gen = f.expr
        target = getattr(gen, "target", None)
        it = getattr(gen, "iter", None)
        if target is None or it is None:
            continue
        if isinstance(it, ast.Call) and isinstance(it.func, ast.Name):
            if it.func.id == "enumerate" and it.args and \
                    src(it.args[0]) == cont and \
                    isinstance(target, ast.Tuple) and target.elts and \
                    src(target.elts[0]) == idx:
                if not _mutated_in_loop(gen, cont, use):
                    return "loop enumerate({})".format(cont)
            if it.func.id == "range" and src(target) == idx and it.args:
                hi = it.args[-1] if len(it.args) <= 2 else it.args[1]
                if len(it.args) == 3:
                    continue
                lo_ok = len(it.args) == 1 or (
                    isinstance(it.args[0], ast.Constant) and
                    isinstance(it.args[0].value, int) and
                    it.args[0].value >= 0)
                if src(hi) == "len({})".format(cont) and lo_ok and \
                        not _mutated_in_loop(gen, cont, use):
                    return "loop range(len({}))".format(cont)
    return None


def _mutated_in_loop(loop: ast.AST, cont: str, use: ast.AST) -> bool:
    root = cont.split("[")[0].split(".")[0].split("(")[-1]
    if isinstance(loop, (ast.For, ast.AsyncFor)):
        for s in loop.body:
            if root in assigned_names(s):
                # shrinking mutations matter; appends do not, but stay safe
                return True
    return False


def _loop_key_proof(facts: List[Fact], cont: str, key: str) -> Optional[str]:
    for f in facts:
        if f.kind != "loop":
            continue
        gen = f.expr
        target = getattr(gen, "target", None)
        it = getattr(gen, "iter", None)
        if target is None or it is None:
            continue
        its = src(it)
        if its in (cont, cont + ".keys()") and src(target) == key:
            return "loop over keys of " + cont
        if its in (cont + ".items()", cont + ".non_merged_items()") and \
                isinstance(target, ast.Tuple) and target.elts and \
                src(target.elts[0]) == key:
            return "loop over items of " + cont
    return None


def _presence_fact(facts: List[Fact], cont: str, key: str) -> Optional[Fact]:
    for f in facts:
        e = f.expr
        if f.kind != "cond" or not isinstance(e, ast.Compare) or \
                len(e.ops) != 1:
            continue
        if src(e.left) == key and src(e.comparators[0]) == cont:
            if (isinstance(e.ops[0], ast.In) and f.pol) or \
                    (isinstance(e.ops[0], ast.NotIn) and not f.pol):
                return f
    return None


def _stored_before(site: Site) -> Optional[str]:
    """``x[k] = ...`` earlier in the same block chain, no kill between."""
    want = src(site.node)
    cur: ast.AST = enclosing_stmt(site.node)
    names = names_in(site.node)
    while isinstance(cur, ast.stmt):
        par = parent(cur)
        blk = None
        for field in ("body", "orelse", "finalbody"):
            b = getattr(par, field, None)
            if isinstance(b, list) and cur in b:
                blk = b
        if blk is None:
            break
        i = blk.index(cur)
        for k in range(i - 1, -1, -1):
            prev = blk[k]
            if isinstance(prev, ast.Assign) and any(
                    src(t) == want for t in prev.targets):
                return "stored at line {}".format(prev.lineno)
            if assigned_names(prev) & names:
                return None
        if isinstance(par, FUNC_TYPES) or not isinstance(par, ast.stmt):
            break
        if isinstance(par, (ast.For, ast.While)):
            break
        cur = par
    return None


def _const_defs(fi: FuncInfo, name: str) -> Optional[List[Tuple[int, ast.AST]]]:
    """All definitions of local ``name`` if each is an int constant."""
    defs: List[Tuple[int, ast.AST]] = []
    for n in walk_local(fi.node):
        tgt = None
        val = None
        if isinstance(n, ast.Assign) and len(n.targets) == 1:
            tgt, val = n.targets[0], n.value
        elif isinstance(n, ast.AnnAssign):
            tgt, val = n.target, n.value
        elif isinstance(n, ast.AugAssign):
            if isinstance(n.target, ast.Name) and n.target.id == name:
                return None
        elif isinstance(n, (ast.For, ast.comprehension)):
            if name in names_in(n.target):
                return None
        if isinstance(tgt, ast.Name) and tgt.id == name:
            if isinstance(val, ast.Constant) and isinstance(val.value, int) \
                    and not isinstance(val.value, bool):
                defs.append((val.value, n))
            else:
                return None
        elif isinstance(tgt, ast.Tuple) and name in names_in(tgt):
            return None
    if name in fi.params():
        return None
    return defs or None


def _xfacts(node: ast.AST, fi: FuncInfo) -> List[Fact]:
    """Guard facts at ``node`` with local aliases expanded."""
    from .interproc import aliases, subst
    amap = aliases(fi)
    out: List[Fact] = []
    for f in facts_at(node):
        if f.kind == "cond" and amap:
            out.append(Fact(subst(f.expr, amap), f.pol, f.origin, f.kind))
        else:
            out.append(f)
    return out


def _ne_facts(facts: List[Fact]) -> List[Dict[str, int]]:
    """Linear forms d with a fact ``d != 0``."""
    out: List[Dict[str, int]] = []
    for f in facts:
        e = f.expr
        if f.kind == "cond" and isinstance(e, ast.Compare) and \
                len(e.ops) == 1:
            ne = (isinstance(e.ops[0], ast.NotEq) and f.pol) or \
                (isinstance(e.ops[0], ast.Eq) and not f.pol)
            if ne:
                a, b = linear(e.left), linear(e.comparators[0])
                if a is not None and b is not None:
                    d = dict(a)
                    for k, v in b.items():
                        d[k] = d.get(k, 0) - v
                    out.append({k: v for k, v in d.items()
                                if v != 0 or k == ""})
    return out


def _norm(d: Dict[str, int]) -> Dict[str, int]:
    out = {k: v for k, v in d.items() if v != 0}
    out.setdefault("", 0)
    return out


def ge0(facts: List[Fact], query: Dict[str, int],
        extra: Optional[List[Dict[str, int]]] = None) -> Optional[str]:
    """``query >= 0`` from one fact, from an assumed form in ``extra``, or
    from ``q + 1 >= 0`` together with ``q + 1 != 0``."""
    f = implies_ge0(facts, query)
    if f is not None:
        return "`{}`".format(f)
    q = _norm(query)
    for form in extra or []:
        diff = dict(q)
        for k, v in form.items():
            diff[k] = diff.get(k, 0) - v
        diff = _norm(diff)
        if set(diff) <= {""} and diff[""] >= 0:
            return "entry invariant"
    # q = g - 1 with g >= 0 and g != 0
    g = dict(q)
    g[""] = g.get("", 0) + 1
    why = None
    f2 = implies_ge0(facts, g)
    if f2 is not None:
        why = "`{}`".format(f2)
    else:
        for form in extra or []:
            diff = dict(g)
            for k, v in form.items():
                diff[k] = diff.get(k, 0) - v
            diff = _norm(diff)
            if set(diff) <= {""} and diff[""] >= 0:
                why = "entry invariant"
    if why:
        for ne in _ne_facts(facts):
            if _norm(ne) == _norm(g) or \
                    _norm({k: -v for k, v in ne.items()}) == _norm(g):
                return why + " and a `!=` fact"
    return None


def seq_bound_proof(site: Site, facts: List[Fact],
                    cont: Optional[ast.AST] = None,
                    idx: Optional[ast.AST] = None,
                    prog: Optional[Program] = None,
                    extra: Optional[List[Dict[str, int]]] = None,
                    fi: Optional[FuncInfo] = None,
                    need_lower: bool = True) -> Optional[str]:
    cont = cont if cont is not None else site.container
    idx = idx if idx is not None else site.index
    fi = fi or site.fi
    if cont is None or idx is None:
        return None
    cs = src(cont)
    lenx = {"len(" + cs + ")": 1}
    lin = linear(idx)
    if lin is None:
        return None
    # constant index
    if set(lin) <= {""}:
        c = lin.get("", 0)
        need = dict(lenx)
        need[""] = (-c - 1) if c >= 0 else c
        w = ge0(facts, need, extra)
        if w:
            return "length fact " + w
        return None
    # variable index
    up = dict(lenx)
    for k, v in lin.items():
        up[k] = up.get(k, 0) - v
    up[""] = up.get("", 0) - 1
    wu = ge0(facts, up, extra)
    if wu:
        lo = ge0(facts, lin, extra)
        if lo is None:
            lo2 = dict(lenx)
            for k, v in lin.items():
                lo2[k] = lo2.get(k, 0) + v
            lo = ge0(facts, lo2, extra)
        if lo is None and prog is not None:
            from .interproc import nonneg
            if nonneg(prog).expr(idx, fi):
                lo = "non-negative by construction"
        if lo is not None:
            return "two-sided bound {} and {}".format(wu, lo)
        if not need_lower:
            return "upper bound {}".format(wu)
        return None
    lp = _loop_index_proof(facts, cs, src(idx), site.node)
    if lp:
        return lp
    if isinstance(idx, ast.Name):
        defs = _const_defs(fi, idx.id)
        if defs:
            why = []
            for c, dnode in defs:
                need = dict(lenx)
                need[""] = (-c - 1) if c >= 0 else c
                w = ge0(facts, need, extra) or \
                    ge0(_xfacts(dnode, fi), need, extra)
                if w is None:
                    return None
                why.append("{}: {}".format(c, w))
            return "constant index values " + "; ".join(why)
    return None


def map_key_proof(site: Site, facts: List[Fact],
                  cont: Optional[ast.AST] = None,
                  key: Optional[ast.AST] = None) -> Optional[str]:
    cont = cont if cont is not None else site.container
    key = key if key is not None else site.index
    if cont is None or key is None:
        return None
    cs, ks = src(cont), src(key)
    f = _presence_fact(facts, cs, ks)
    if f is not None:
        return "presence test `{}`".format(f)
    lp = _loop_key_proof(facts, cs, ks)
    if lp:
        return lp
    return None


def _appended_before(site: Site) -> Optional[str]:
    """``x.append(v)`` earlier in the same block, then ``x[-1]``."""
    if site.container is None or site.index is None:
        return None
    if src(site.index) != "-1":
        return None
    want = src(site.container)
    cur: ast.AST = enclosing_stmt(site.node)
    par = parent(cur)
    for field in ("body", "orelse", "finalbody"):
        blk = getattr(par, field, None)
        if isinstance(blk, list) and cur in blk:
            i = blk.index(cur)
            for k in range(i - 1, -1, -1):
                prev = blk[k]
                if isinstance(prev, ast.Expr) and \
                        isinstance(prev.value, ast.Call) and \
                        isinstance(prev.value.func, ast.Attribute) and \
                        prev.value.func.attr == "append" and \
                        src(prev.value.func.value) == want:
                    return "appended at line {}".format(prev.lineno)
                if root_name(site.container) in assigned_names(prev):
                    return None
    return None


def _split_proof(site: Site, facts: List[Fact]) -> Optional[str]:
    """``parts = s.split(sep[, n])``: parts[0] always exists; parts[1]
    exists under a fact ``sep in s``."""
    cont, idx = site.container, site.index
    if not isinstance(cont, ast.Name) or not isinstance(idx, ast.Constant):
        return None
    if idx.value not in (0, 1):
        return None
    defs = [n for n in walk_local(site.fi.node)
            if isinstance(n, (ast.Assign, ast.AnnAssign)) and
            any(isinstance(t, ast.Name) and t.id == cont.id
                for t in (n.targets if isinstance(n, ast.Assign)
                          else [n.target]))]
    if len(defs) != 1:
        return None
    val = defs[0].value
    if not (isinstance(val, ast.Call) and isinstance(val.func, ast.Attribute)
            and val.func.attr == "split" and val.args):
        return None
    if idx.value == 0:
        return "str.split() always yields at least one part"
    f = _presence_fact(facts, src(val.func.value), src(val.args[0]))
    if f is not None:
        return "split on a separator that is present: `{}`".format(f)
    return None


def _group_values_proof(site: Site, facts: List[Fact]) -> Optional[str]:
    """``for v in d.values(): v[0]`` where every store into the local dict
    ``d`` is a non-empty list literal and nothing shrinks the groups."""
    cont, idx = site.container, site.index
    if not isinstance(cont, ast.Name) or not isinstance(idx, ast.Constant) \
            or idx.value != 0:
        return None
    dname = None
    for f in facts:
        if f.kind == "loop":
            it = getattr(f.expr, "iter", None)
            tgt = getattr(f.expr, "target", None)
            if isinstance(tgt, ast.Name) and tgt.id == cont.id and \
                    isinstance(it, ast.Call) and \
                    isinstance(it.func, ast.Attribute) and \
                    it.func.attr == "values" and \
                    isinstance(it.func.value, ast.Name):
                dname = it.func.value.id
    if dname is None or dname in site.fi.params():
        return None
    stores = 0
    for n in walk_local(site.fi.node):
        if isinstance(n, ast.Assign):
            for t in n.targets:
                if isinstance(t, ast.Subscript) and \
                        isinstance(t.value, ast.Name) and \
                        t.value.id == dname:
                    if not (isinstance(n.value, ast.List) and n.value.elts):
                        return None
                    stores += 1
                elif isinstance(t, ast.Name) and t.id == dname:
                    if not (isinstance(n.value, ast.Dict) and
                            not n.value.keys):
                        return None
        elif isinstance(n, ast.AnnAssign) and isinstance(n.target, ast.Name) \
                and n.target.id == dname:
            if not (isinstance(n.value, ast.Dict) and not n.value.keys):
                return None
        elif isinstance(n, ast.Call) and isinstance(n.func, ast.Attribute):
            r = root_name(n.func.value)
            if r == dname and n.func.attr in MUTATORS and \
                    n.func.attr not in ("append", "extend"):
                return None
        elif isinstance(n, (ast.Subscript,)) and \
                isinstance(n.ctx, ast.Del) and root_name(n) == dname:
            return None
    if stores == 0:
        return None
    return ("groups of local dict `{}` are created as non-empty list "
            "literals ({} store sites) and only grow".format(dname, stores))


def _padded_before(site: Site, prog: Optional[Program],
                   facts: List[Fact]) -> Optional[str]:
    """``for _ in range(len(x) - 1, n): <append one element to x>`` directly
    before ``x[n]``: afterwards len(x) > n; the lower bound needs a fact."""
    cont, idx = site.container, site.index
    if cont is None or idx is None:
        return None
    cs, ns = src(cont), src(idx)
    cur: ast.AST = enclosing_stmt(site.node)
    # climb to the statement that has the padding loop as a previous sibling
    for _ in range(3):
        par = parent(cur)
        blk = None
        for field in ("body", "orelse"):
            b = getattr(par, field, None)
            if isinstance(b, list) and cur in b:
                blk = b
        if blk is None:
            return None
        i = blk.index(cur)
        loop = None
        for k in range(i - 1, -1, -1):
            prev = blk[k]
            if isinstance(prev, ast.For) and isinstance(prev.iter, ast.Call) \
                    and src(prev.iter.func) == "range" and \
                    len(prev.iter.args) == 2 and \
                    src(prev.iter.args[0]) == "len({}) - 1".format(cs) and \
                    src(prev.iter.args[1]) == ns:
                loop = prev
                break
            if {root_name(cont), ns} & assigned_names(prev):
                break
        if loop is not None:
            appends = 0
            for n in walk_local(loop):
                if isinstance(n, ast.Call) and \
                        isinstance(n.func, ast.Attribute):
                    if n.func.attr == "append" and src(n.func.value) == cs:
                        appends += 1
                    elif prog is not None and n.args and \
                            src(n.args[0]) == cs:
                        from .model import resolve_call
                        for callee in resolve_call(prog, site.fi, n):
                            if _appends_once(callee):
                                appends += 1
            conditional = any(isinstance(n, (ast.If, ast.Continue, ast.Break,
                                             ast.Try))
                              for n in walk_local(loop))
            if appends == 1 and not conditional:
                lin = linear(idx)
                lo = ge0(facts, lin) if lin is not None else None
                if lo:
                    return ("padding loop at line {} appends one element "
                            "per step up to index `{}`; lower bound {}"
                            .format(loop.lineno, ns, lo))
            return None
        if isinstance(par, (ast.For, ast.While)) or \
                not isinstance(par, ast.stmt):
            return None
        cur = par
    return None


def _appends_once(callee: FuncInfo) -> bool:
    """The callee appends exactly one element to its first parameter on
    every path (one unconditional ``<p0>.append(...)`` at top level)."""
    params = callee.params()
    if not params:
        return False
    p0 = params[0]
    tops = [s for s in callee.node.body
            if isinstance(s, ast.Expr) and isinstance(s.value, ast.Call)
            and isinstance(s.value.func, ast.Attribute)
            and s.value.func.attr == "append"
            and src(s.value.func.value) == p0]
    alls = [n for n in walk_local(callee.node)
            if isinstance(n, ast.Call) and isinstance(n.func, ast.Attribute)
            and n.func.attr in MUTATORS and src(n.func.value) == p0]
    return len(tops) == 1 and len(alls) == 1


def discharge(site: Site, prog: Optional[Program] = None,
              extra: Optional[List[Dict[str, int]]] = None) -> Optional[str]:
    """Return the reason the site cannot raise, or None."""
    from .interproc import aliases, subst
    h = handled(site.node, site.exc if site.kind != "subscript"
                else ("IndexError", "KeyError"))
    if h:
        return h
    fi = site.fi
    amap = aliases(fi)
    facts = _xfacts(site.node, fi)
    cont = subst(site.container, amap) if site.container is not None else None
    idx = subst(site.index, amap) if site.index is not None else None
    if site.kind in ("subscript", "del"):
        cs = src(site.container) if site.container is not None else ""
        kinds = _isinstance_kinds(facts_at(site.node), cs)
        is_map = bool(kinds & MAP_TYPES) and not (kinds & SEQ_TYPES)
        is_seq = bool(kinds & SEQ_TYPES) and not (kinds & MAP_TYPES)
        if not is_map:
            p = seq_bound_proof(site, facts, cont, idx, prog, extra)
            if p:
                return p
        if not is_seq:
            p = map_key_proof(site, facts, cont, idx) or \
                map_key_proof(site, facts_at(site.node))
            if p:
                return p
        if site.kind == "subscript":
            p = _stored_before(site) or _appended_before(site) or \
                _split_proof(site, facts_at(site.node)) or \
                _group_values_proof(site, facts_at(site.node)) or \
                _padded_before(site, prog, facts)
            if p:
                return p
        return None
    if site.kind == "pop":
        if prog is not None:
            from .model import resolve_call
            if isinstance(site.node, ast.Call) and \
                    resolve_call(prog, fi, site.node):
                return "not a builtin pop: resolves to a program method"
        need = {"len(" + src(cont) + ")": 1, "": -1}
        w = ge0(facts, need, extra)
        return "non-empty fact " + w if w else None
    if site.kind == "pop_key":
        return map_key_proof(site, facts, cont, idx)
    if site.kind == "index":
        f = _presence_fact(facts_at(site.node), src(site.container),
                           src(site.index))
        return "presence test `{}`".format(f) if f is not None else None
    if site.kind == "regex":
        pat = site.index
        if isinstance(pat, ast.Constant) and isinstance(pat.value, str):
            import re as _re
            try:
                _re.compile(pat.value)
                return "constant pattern that compiles"
            except _re.error:
                return None
    return None
