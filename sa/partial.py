"""Partial operations (operations that raise on some operands) and the guard
idioms that discharge them.

The library model (trusted base) is the table ``RAISERS`` below: which
builtin / stdlib operations may raise which exception classes.
"""
from __future__ import annotations

import ast
from typing import Dict, Iterable, List, Optional, Set, Tuple

from .model import (FUNC_TYPES, FuncInfo, Program, ancestors, enclosing_stmt,
                    parent, src, walk_local)
from .guards import (Fact, MUTATORS, assigned_names, facts_at, implies_ge0,
                     linear, names_in, root_name)

LIBRARY_MODEL = [
    "seq[i] -> IndexError unless -len<=i<len; map[k] -> KeyError unless k in "
    "map; slices never raise",
    "list.pop()/deque.pop() -> IndexError on empty; dict.pop(k) without "
    "default -> KeyError",
    "int(s)/float(s) -> ValueError on non-numeric text",
    "re.compile(text) -> re.error on malformed patterns",
    "seq.index(v)/seq.remove(v) -> ValueError when absent",
    "Enum[name] -> KeyError when name is no member",
    "next(it) without default -> StopIteration",
    "ast.literal_eval -> ValueError, SyntaxError, TypeError, MemoryError, "
    "RecursionError",
    "a < b (ordering) -> TypeError for unorderable operand types",
    "a in b -> TypeError when b is None / not a container",
    "hashing a list/dict/set (dict key, set member, `in` on dict) -> "
    "TypeError",
]


class Site:
    def __init__(self, kind: str, node: ast.AST, fi: FuncInfo,
                 exc: Tuple[str, ...], container: Optional[ast.AST] = None,
                 index: Optional[ast.AST] = None) -> None:
        self.kind = kind
        self.node = node
        self.fi = fi
        self.exc = exc
        self.container = container
        self.index = index

    @property
    def text(self) -> str:
        return src(self.node)

    def __repr__(self) -> str:
        return "<{} {} @{}:{}>".format(self.kind, self.text[:60],
                                       self.fi.short,
                                       getattr(self.node, "lineno", "?"))


def in_annotation(node: ast.AST) -> bool:
    child = node
    for anc in ancestors(node):
        if isinstance(anc, ast.AnnAssign) and anc.annotation is child:
            return True
        if isinstance(anc, ast.arg):
            return True
        if isinstance(anc, FUNC_TYPES) and anc.returns is child:
            return True
        child = anc
    return False


def find_sites(fi: FuncInfo) -> List[Site]:
    out: List[Site] = []
    for n in walk_local(fi.node):
        if isinstance(n, ast.Subscript) and not in_annotation(n):
            if isinstance(n.slice, ast.Slice):
                continue
            if isinstance(n.ctx, ast.Load):
                out.append(Site("subscript", n, fi,
                                ("IndexError", "KeyError"), n.value, n.slice))
            elif isinstance(n.ctx, ast.Del):
                out.append(Site("del", n, fi,
                                ("IndexError", "KeyError"), n.value, n.slice))
        elif isinstance(n, ast.Call):
            f = n.func
            fs = src(f)
            if isinstance(f, ast.Name) and f.id in ("int", "float") and n.args:
                out.append(Site(f.id, n, fi, ("ValueError",), None,
                                n.args[0]))
            elif isinstance(f, ast.Name) and f.id == "next" and \
                    len(n.args) == 1:
                out.append(Site("next", n, fi, ("StopIteration",), None,
                                n.args[0]))
            elif fs in ("re.compile", "re.search", "re.match", "re.fullmatch",
                        "re.sub", "re.findall") and n.args:
                out.append(Site("regex", n, fi, ("re.error",), None,
                                n.args[0]))
            elif fs.endswith("literal_eval"):
                out.append(Site("literal_eval", n, fi,
                                ("ValueError", "SyntaxError", "TypeError",
                                 "MemoryError", "RecursionError"), None,
                                n.args[0] if n.args else None))
            elif isinstance(f, ast.Attribute):
                if f.attr == "pop" and not n.args and not n.keywords:
                    out.append(Site("pop", n, fi, ("IndexError",), f.value))
                elif f.attr == "pop" and len(n.args) == 1 and \
                        src(f.value) != "kwargs":
                    out.append(Site("pop_key", n, fi,
                                    ("KeyError", "IndexError"),
                                    f.value, n.args[0]))
                elif f.attr == "popleft" and not n.args:
                    out.append(Site("pop", n, fi, ("IndexError",), f.value))
                elif f.attr in ("index", "remove") and len(n.args) >= 1 \
                        and not isinstance(f.value, ast.Constant):
                    out.append(Site("index", n, fi, ("ValueError",),
                                    f.value, n.args[0]))
    return out


# --------------------------------------------------------------------------
# Discharge idioms
# --------------------------------------------------------------------------
def handler_names(h: ast.ExceptHandler) -> List[str]:
    if h.type is None:
        return ["BaseException"]
    elts = h.type.elts if isinstance(h.type, ast.Tuple) else [h.type]
    return [src(e) for e in elts]


CATCHES = {
    "Exception": None,       # everything
    "BaseException": None,
    "LookupError": {"IndexError", "KeyError"},
    "ArithmeticError": {"ZeroDivisionError", "OverflowError"},
}


def caught_by(name: str, handler: str) -> bool:
    if handler == name:
        return True
    if handler in CATCHES:
        return CATCHES[handler] is None or name in CATCHES[handler]  # type: ignore
    return False


def enclosing_handlers(node: ast.AST) -> List[ast.ExceptHandler]:
    """Handlers of every ``try`` whose *body* contains ``node``."""
    out: List[ast.ExceptHandler] = []
    child = node
    for anc in ancestors(node):
        if isinstance(anc, FUNC_TYPES + (ast.Lambda,)):
            break
        if isinstance(anc, ast.Try) and child in anc.body:
            out.extend(anc.handlers)
        child = anc
    return out


def handled(node: ast.AST, excs: Iterable[str]) -> Optional[str]:
    """All exception classes are caught by enclosing handlers."""
    hs = enclosing_handlers(node)
    covered = []
    for e in excs:
        hit = None
        for h in hs:
            if any(caught_by(e, hn) for hn in handler_names(h)):
                hit = h
                break
        if hit is None:
            return None
        covered.append("{}@{}".format(e, hit.lineno))
    return "handler " + ",".join(covered)


def _isinstance_kinds(facts: List[Fact], expr_src: str) -> Set[str]:
    kinds: Set[str] = set()
    for f in facts:
        e = f.expr
        if f.kind == "cond" and f.pol and isinstance(e, ast.Call) and \
                isinstance(e.func, ast.Name) and e.func.id == "isinstance" \
                and len(e.args) == 2 and src(e.args[0]) == expr_src:
            t = e.args[1]
            for el in (t.elts if isinstance(t, ast.Tuple) else [t]):
                kinds.add(src(el).split(".")[-1])
    return kinds


MAP_TYPES = {"dict", "CommentedMap", "OrderedDict", "ryod", "ordereddict"}
SEQ_TYPES = {"list", "CommentedSeq", "tuple", "str", "deque"}


def _loop_index_proof(facts: List[Fact], cont: str, idx: str,
                      use: ast.AST) -> Optional[str]:
    """``idx`` ranges over the indexes of ``cont`` by a loop header."""
    for f in facts:
        if f.kind != "loop":
            continue
        gen = f.expr
        target = getattr(gen, "target", None)
        it = getattr(gen, "iter", None)
        if target is None or it is None:
            continue
        if isinstance(it, ast.Call) and isinstance(it.func, ast.Name):
            if it.func.id == "enumerate" and it.args and \
                    src(it.args[0]) == cont and \
                    isinstance(target, ast.Tuple) and target.elts and \
                    src(target.elts[0]) == idx:
                if not _mutated_in_loop(gen, cont, use):
                    return "loop enumerate({})".format(cont)
            if it.func.id == "range" and src(target) == idx and it.args:
                hi = it.args[-1] if len(it.args) <= 2 else it.args[1]
                if len(it.args) == 3:
                    continue
                lo_ok = len(it.args) == 1 or (
                    isinstance(it.args[0], ast.Constant) and
                    isinstance(it.args[0].value, int) and
                    it.args[0].value >= 0)
                if src(hi) == "len({})".format(cont) and lo_ok and \
                        not _mutated_in_loop(gen, cont, use):
                    return "loop range(len({}))".format(cont)
    return None


def _mutated_in_loop(loop: ast.AST, cont: str, use: ast.AST) -> bool:
    root = cont.split("[")[0].split(".")[0].split("(")[-1]
    if isinstance(loop, (ast.For, ast.AsyncFor)):
        for s in loop.body:
            if root in assigned_names(s):
                # shrinking mutations matter; appends do not, but stay safe
                return True
    return False


def _loop_key_proof(facts: List[Fact], cont: str, key: str) -> Optional[str]:
    for f in facts:
        if f.kind != "loop":
            continue
        gen = f.expr
        target = getattr(gen, "target", None)
        it = getattr(gen, "iter", None)
        if target is None or it is None:
            continue
        its = src(it)
        if its in (cont, cont + ".keys()") and src(target) == key:
            return "loop over keys of " + cont
        if its in (cont + ".items()", cont + ".non_merged_items()") and \
                isinstance(target, ast.Tuple) and target.elts and \
                src(target.elts[0]) == key:
            return "loop over items of " + cont
    return None


def _presence_fact(facts: List[Fact], cont: str, key: str) -> Optional[Fact]:
    for f in facts:
        e = f.expr
        if f.kind != "cond" or not isinstance(e, ast.Compare) or \
                len(e.ops) != 1:
            continue
        if src(e.left) == key and src(e.comparators[0]) == cont:
            if (isinstance(e.ops[0], ast.In) and f.pol) or \
                    (isinstance(e.ops[0], ast.NotIn) and not f.pol):
                return f
    return None


def _stored_before(site: Site) -> Optional[str]:
    """``x[k] = ...`` earlier in the same block chain, no kill between."""
    want = src(site.node)
    cur: ast.AST = enclosing_stmt(site.node)
    names = names_in(site.node)
    while isinstance(cur, ast.stmt):
        par = parent(cur)
        blk = None
        for field in ("body", "orelse", "finalbody"):
            b = getattr(par, field, None)
            if isinstance(b, list) and cur in b:
                blk = b
        if blk is None:
            break
        i = blk.index(cur)
        for k in range(i - 1, -1, -1):
            prev = blk[k]
            if isinstance(prev, ast.Assign) and any(
                    src(t) == want for t in prev.targets):
                return "stored at line {}".format(prev.lineno)
            if assigned_names(prev) & names:
                return None
        if isinstance(par, FUNC_TYPES) or not isinstance(par, ast.stmt):
            break
        if isinstance(par, (ast.For, ast.While)):
            break
        cur = par
    return None


def _const_defs(fi: FuncInfo, name: str) -> Optional[List[Tuple[int, ast.AST]]]:
    """All definitions of local ``name`` if each is an int constant."""
    defs: List[Tuple[int, ast.AST]] = []
    for n in walk_local(fi.node):
        tgt = None
        val = None
        if isinstance(n, ast.Assign) and len(n.targets) == 1:
            tgt, val = n.targets[0], n.value
        elif isinstance(n, ast.AnnAssign):
            tgt, val = n.target, n.value
        elif isinstance(n, ast.AugAssign):
            if isinstance(n.target, ast.Name) and n.target.id == name:
                return None
        elif isinstance(n, (ast.For, ast.comprehension)):
            if name in names_in(n.target):
                return None
        if isinstance(tgt, ast.Name) and tgt.id == name:
            if isinstance(val, ast.Constant) and isinstance(val.value, int) \
                    and not isinstance(val.value, bool):
                defs.append((val.value, n))
            else:
                return None
        elif isinstance(tgt, ast.Tuple) and name in names_in(tgt):
            return None
    if name in fi.params():
        return None
    return defs or None


def seq_bound_proof(site: Site, facts: List[Fact]) -> Optional[str]:
    cont, idx = site.container, site.index
    if cont is None or idx is None:
        return None
    cs = src(cont)
    lenx = {"len(" + cs + ")": 1}
    lin = linear(idx)
    if lin is None:
        return None
    # constant index
    if set(lin) <= {""}:
        c = lin.get("", 0)
        need = dict(lenx)
        need[""] = (-c - 1) if c >= 0 else c
        f = implies_ge0(facts, need)
        if f is not None:
            return "length fact `{}`".format(f)
        return None
    # variable index
    up = dict(lenx)
    for k, v in lin.items():
        up[k] = up.get(k, 0) - v
    up[""] = up.get("", 0) - 1
    fu = implies_ge0(facts, up)
    if fu is not None:
        lo = implies_ge0(facts, lin)
        if lo is None:
            lo2 = dict(lenx)
            for k, v in lin.items():
                lo2[k] = lo2.get(k, 0) + v
            lo = implies_ge0(facts, lo2)
        if lo is not None:
            return "two-sided bound `{}` and `{}`".format(fu, lo)
        return None
    lp = _loop_index_proof(facts, cs, src(idx), site.node)
    if lp:
        return lp
    if isinstance(idx, ast.Name):
        defs = _const_defs(site.fi, idx.id)
        if defs:
            why = []
            for c, dnode in defs:
                need = dict(lenx)
                need[""] = (-c - 1) if c >= 0 else c
                f = implies_ge0(facts, need) or \
                    implies_ge0(facts_at(dnode), need)
                if f is None:
                    return None
                why.append("{}: `{}`".format(c, f))
            return "constant index values " + "; ".join(why)
    return None


def map_key_proof(site: Site, facts: List[Fact]) -> Optional[str]:
    cont, key = site.container, site.index
    if cont is None or key is None:
        return None
    cs, ks = src(cont), src(key)
    f = _presence_fact(facts, cs, ks)
    if f is not None:
        return "presence test `{}`".format(f)
    lp = _loop_key_proof(facts, cs, ks)
    if lp:
        return lp
    return None


def discharge(site: Site) -> Optional[str]:
    """Return the reason the site cannot raise, or None."""
    h = handled(site.node, site.exc if site.kind != "subscript"
                else ("IndexError", "KeyError"))
    if h:
        return h
    facts = facts_at(site.node)
    if site.kind in ("subscript", "del"):
        cs = src(site.container) if site.container is not None else ""
        kinds = _isinstance_kinds(facts, cs)
        is_map = bool(kinds & MAP_TYPES) and not (kinds & SEQ_TYPES)
        is_seq = bool(kinds & SEQ_TYPES) and not (kinds & MAP_TYPES)
        if not is_map:
            p = seq_bound_proof(site, facts)
            if p:
                return p
        if not is_seq:
            p = map_key_proof(site, facts)
            if p:
                return p
        if site.kind == "subscript":
            p = _stored_before(site)
            if p:
                return p
        return None
    if site.kind == "pop":
        need = {"len(" + src(site.container) + ")": 1, "": -1}
        f = implies_ge0(facts, need)
        return "non-empty fact `{}`".format(f) if f is not None else None
    if site.kind == "pop_key":
        p = map_key_proof(site, facts)
        return p
    if site.kind == "index":
        f = _presence_fact(facts, src(site.container), src(site.index))
        return "presence test `{}`".format(f) if f is not None else None
    return None
