"""Effect (mutation) analysis with a small freshness lattice.

A *mutation site* is a call of a known mutating method, a subscript /
attribute store or delete, or an augmented assignment through a subscript /
attribute.  Its *receiver* is the object being changed.  Receivers are
classified per function:

* ``fresh``    every definition of the receiver's root local is a literal,
               comprehension, constructor or fresh-returning call (elements
               of a fresh container count when every store into it is a
               fresh literal);
* ``self``     a field of ``self`` (cache fields of value objects);
* ``kwargs``   the per-call keyword dict;
* ``param:i``  the i-th parameter (or an alias of it);
* ``doc``      possibly document data: a data parameter, ``self.data``,
               ``<coords>.node`` / ``.parent``, or anything derived from them;
* ``unknown``  none of the above.

Interprocedural summary: which parameters a function may mutate (directly
or by passing them to a callee that mutates them), to a fixpoint.
"""
from __future__ import annotations

import ast
from typing import Dict, Iterable, List, Optional, Set, Tuple

from .guards import MUTATORS, root_name
from .interproc import arg_map
from .kinds import DocTaint
from .model import (FuncInfo, Program, callees, resolve_call, src, types_of,
                    walk_local)

FRESH_CALLS = {"list", "dict", "set", "deque", "tuple", "str", "int", "float",
               "sorted", "reversed", "OrderedDict", "CommentedMap",
               "CommentedSeq", "CommentedSet", "frozenset", "bool", "len",
               "enumerate", "zip", "range", "map", "filter"}

DOC_ATTRS = {"node", "parent", "unwrapped_node", "deepest_node_coord"}


class MutSite:
    def __init__(self, fi: FuncInfo, node: ast.AST, receiver: ast.AST,
                 how: str) -> None:
        self.fi = fi
        self.node = node
        self.receiver = receiver
        self.how = how

    @property
    def text(self) -> str:
        return src(self.node)

    def __repr__(self) -> str:
        return "<mut {} on {} @{}:{}>".format(
            self.how, src(self.receiver), self.fi.short,
            getattr(self.node, "lineno", "?"))


def mutation_sites(fi: FuncInfo) -> List[MutSite]:
    out: List[MutSite] = []
    for n in walk_local(fi.node):
        if isinstance(n, ast.Call) and isinstance(n.func, ast.Attribute) and \
                n.func.attr in MUTATORS:
            out.append(MutSite(fi, n, n.func.value, "." + n.func.attr + "()"))
        elif isinstance(n, (ast.Subscript, ast.Attribute)) and \
                isinstance(n.ctx, (ast.Store, ast.Del)):
            how = "store" if isinstance(n.ctx, ast.Store) else "del"
            kind = "[]" if isinstance(n, ast.Subscript) else "." + n.attr
            out.append(MutSite(fi, n, n.value, how + kind))
    return out


def data_params(fi: FuncInfo) -> Set[str]:
    out: Set[str] = set()
    a = fi.node.args
    for arg in a.posonlyargs + a.args:
        if arg.annotation is not None and src(arg.annotation) in (
                "Any", "CommentedMap", "CommentedSeq", "CommentedSet") and \
                arg.arg not in ("value", "parentref"):
            out.add(arg.arg)
    return out


class Effects:
    def __init__(self, prog: Program) -> None:
        self.prog = prog
        self._taint: Dict[str, DocTaint] = {}
        self.mutated_params: Dict[str, Set[str]] = {}
        self._summ_done = False

    # -- local classification ------------------------------------------
    def taint(self, fi: FuncInfo) -> DocTaint:
        if fi.qual not in self._taint:
            dp = data_params(fi)
            if fi.outer is not None:
                # closures see the outer function's document values
                dp |= self.taint(fi.outer).doc
            self._taint[fi.qual] = DocTaint(fi, dp)
        return self._taint[fi.qual]

    def _defs(self, fi: FuncInfo, name: str) -> List[ast.AST]:
        out: List[ast.AST] = []
        for n in walk_local(fi.node):
            if isinstance(n, ast.Assign):
                for t in n.targets:
                    if isinstance(t, ast.Name) and t.id == name:
                        out.append(n.value)
                    elif isinstance(t, (ast.Tuple, ast.List)) and any(
                            isinstance(e, ast.Name) and e.id == name
                            for e in ast.walk(t)):
                        out.append(ast.Name(id="<unpack>", ctx=ast.Load()))
            elif isinstance(n, ast.AnnAssign) and \
                    isinstance(n.target, ast.Name) and n.target.id == name \
                    and n.value is not None:
                out.append(n.value)
            elif isinstance(n, (ast.For, ast.comprehension)) and any(
                    isinstance(e, ast.Name) and e.id == name
                    for e in ast.walk(n.target)):
                out.append(ast.Name(id="<loop:{}>".format(src(n.iter)),
                                    ctx=ast.Load()))
            elif isinstance(n, ast.withitem) and n.optional_vars is not None \
                    and any(isinstance(e, ast.Name) and e.id == name
                            for e in ast.walk(n.optional_vars)):
                out.append(ast.Name(id="<with>", ctx=ast.Load()))
        return out

    def fresh_expr(self, fi: FuncInfo, e: ast.AST,
                   _seen: Optional[Set[str]] = None) -> bool:
        seen = _seen or set()
        if isinstance(e, (ast.List, ast.Dict, ast.Set, ast.Tuple, ast.ListComp,
                          ast.SetComp, ast.DictComp, ast.GeneratorExp,
                          ast.Constant, ast.JoinedStr)):
            return True
        if isinstance(e, ast.BinOp):
            # list + list, str % x ... build new objects
            return True
        if isinstance(e, ast.Call):
            f = e.func
            if isinstance(f, ast.Name) and f.id in FRESH_CALLS:
                return True
            q = self.prog.resolve_expr_to_qual(fi.module, f)
            if q in self.prog.classes:
                return True       # constructor
            if isinstance(f, ast.Attribute) and f.attr in (
                    "copy", "format", "split", "join", "keys", "values",
                    "items", "replace", "lower", "upper", "strip", "title"):
                return True
            return False
        if isinstance(e, ast.IfExp):
            return self.fresh_expr(fi, e.body, seen) and \
                self.fresh_expr(fi, e.orelse, seen)
        if isinstance(e, ast.Name):
            if e.id in seen or e.id.startswith("<"):
                return False
            if e.id in fi.params() or e.id == "self":
                return False
            ds = self._defs(fi, e.id)
            return bool(ds) and all(
                self.fresh_expr(fi, d, seen | {e.id}) for d in ds)
        return False

    def _nondoc_value(self, fi: FuncInfo, e: ast.AST) -> bool:
        """A value that is a wrapper / path / text object, never a document
        node: result of a program function or property whose return
        annotation is not ``Any``."""
        from .kinds import ann_kind, UNKNOWN
        from .model import resolve_property
        cands: List[FuncInfo] = []
        if isinstance(e, ast.Call):
            cands = resolve_call(self.prog, fi, e)
        elif isinstance(e, ast.Attribute):
            cands = resolve_property(self.prog, fi, e)
        elif isinstance(e, ast.Name) and e.id not in fi.params():
            ds = self._defs(fi, e.id)
            return bool(ds) and all(
                self.fresh_expr(fi, d, {e.id}) or self._nondoc_value(fi, d)
                for d in ds if not (isinstance(d, ast.Name) and
                                    d.id == e.id))
        if not cands:
            return False
        for c in cands:
            r = c.node.returns
            if r is None or src(r) in ("Any", "None"):
                return False
        return True

    def classify(self, site: MutSite) -> Tuple[str, str]:
        """(class, detail) of the receiver of a mutation site."""
        fi = site.fi
        recv = site.receiver
        taint = self.taint(fi)
        root = root_name(recv)
        if isinstance(recv, ast.Call) and self.fresh_expr(fi, recv):
            return "fresh", "temporary " + src(recv)
        # <x>.node / .parent chains are document objects
        for n in ast.walk(recv):
            if isinstance(n, ast.Attribute) and n.attr in DOC_ATTRS:
                return "doc", "through .{}".format(n.attr)
        if isinstance(recv, ast.Attribute) and root == "self":
            if recv.attr == "data":
                return "doc", "self.data"
        if root == "self":
            if isinstance(site.node, ast.Attribute) and \
                    site.node.attr == "data" and \
                    isinstance(site.node.ctx, ast.Store):
                return "doc", "rebinds self.data"
            return "self", src(recv)
        if root is None:
            return "unknown", src(recv)
        kw = fi.node.args.kwarg.arg if fi.node.args.kwarg else None
        if root == kw:
            return "kwargs", root
        if taint.is_doc(recv) or root in taint.doc:
            return "doc", "derived from a data parameter"
        if isinstance(recv, ast.Name):
            if root in fi.params():
                return "param:" + root, root
            ds = self._defs(fi, root)
            if ds and all(self.fresh_expr(fi, d, {root}) for d in ds):
                return "fresh", root
            # caller-provided keyword object: x = kwargs.pop("name", dflt)
            kw = fi.node.args.kwarg.arg if fi.node.args.kwarg else None
            for d in ds:
                if isinstance(d, ast.Call) and \
                        isinstance(d.func, ast.Attribute) and \
                        d.func.attr == "pop" and kw and \
                        src(d.func.value) == kw and d.args and \
                        isinstance(d.args[0], ast.Constant):
                    return "kwarg:" + str(d.args[0].value), root
            if ds and all(self.fresh_expr(fi, d, {root}) or
                          self._nondoc_value(fi, d) for d in ds):
                return "nondoc", root
            # alias of a parameter
            for d in ds:
                if isinstance(d, ast.Name) and d.id in fi.params():
                    return "param:" + d.id, "{} aliases {}".format(root, d.id)
            if fi.outer is not None and not ds:
                # closure variable of the outer function
                outer_site = MutSite(fi.outer, site.node, recv, site.how)
                return self.classify(outer_site)
            return "unknown", root
        # element of a local container: fresh when every store is fresh
        if isinstance(recv, ast.Subscript) and isinstance(recv.value, ast.Name):
            cont = recv.value.id
            if cont not in fi.params():
                ds = self._defs(fi, cont)
                if ds and all(self.fresh_expr(fi, d, {cont}) for d in ds):
                    stores = [n for n in walk_local(fi.node)
                              if isinstance(n, ast.Assign) and any(
                                  isinstance(t, ast.Subscript) and
                                  isinstance(t.value, ast.Name) and
                                  t.value.id == cont for t in n.targets)]
                    if stores and all(self.fresh_expr(fi, s.value)
                                      for s in stores):
                        return "fresh", "element of fresh " + cont
            if cont in fi.params():
                return "param:" + cont, "element of parameter " + cont
        if root in fi.params():
            return "param:" + root, "through parameter " + root
        return "unknown", src(recv)

    # -- interprocedural summary ---------------------------------------
    def summarise(self, funcs: Iterable[FuncInfo]) -> None:
        funcs = list(funcs)
        for fi in funcs:
            cur: Set[str] = set()
            for site in mutation_sites(fi):
                cls, _ = self.classify(site)
                if cls.startswith("param:"):
                    cur.add(cls.split(":", 1)[1])
                elif cls == "self":
                    cur.add("self")
                elif cls == "doc":
                    r = root_name(site.receiver)
                    if r in fi.params():
                        cur.add(r)
            self.mutated_params[fi.qual] = cur
        changed = True
        quals = {f.qual for f in funcs}
        while changed:
            changed = False
            for fi in funcs:
                types = types_of(self.prog, fi)
                for n in walk_local(fi.node):
                    if not isinstance(n, ast.Call):
                        continue
                    for callee in resolve_call(self.prog, fi, n, types):
                        if callee.qual not in quals:
                            continue
                        am = arg_map(callee, n)
                        if am is None:
                            continue
                        for p in self.mutated_params.get(callee.qual, ()):
                            arg = am.get(p)
                            if arg is None:
                                continue
                            r = root_name(arg)
                            if r in fi.params() and \
                                    r not in self.mutated_params[fi.qual]:
                                self.mutated_params[fi.qual].add(r)
                                changed = True
        self._summ_done = True

    def calls_mutating_doc(self, fi: FuncInfo
                           ) -> List[Tuple[ast.Call, FuncInfo, str, ast.AST]]:
        """Call sites in ``fi`` that hand possibly-document data to a
        parameter the callee mutates."""
        out = []
        types = types_of(self.prog, fi)
        taint = self.taint(fi)
        for n in walk_local(fi.node):
            if not isinstance(n, ast.Call):
                continue
            for callee in resolve_call(self.prog, fi, n, types):
                mp = self.mutated_params.get(callee.qual)
                if not mp:
                    continue
                am = arg_map(callee, n)
                if am is None:
                    continue
                for p in mp:
                    arg = am.get(p)
                    if arg is None:
                        continue
                    if taint.is_doc(arg) or any(
                            isinstance(x, ast.Attribute) and
                            x.attr in DOC_ATTRS for x in ast.walk(arg)) or \
                            src(arg) == "self.data":
                        out.append((n, callee, p, arg))
        return out
