"""Cheap static kinds of expressions: int / str / float / container / unknown,
and provenance (document-derived values)."""
from __future__ import annotations

import ast
from typing import Dict, List, Optional, Set

from .guards import Fact, names_in, root_name
from .model import FuncInfo, Program, resolve_call, src, walk_local

INT, STR, FLOAT, CONT, BOOL, UNKNOWN = "int", "str", "float", "container", \
    "bool", "unknown"

_CONT_HEADS = {"List", "Dict", "Set", "Deque", "Tuple", "list", "dict", "set",
               "deque", "tuple", "FrozenSet", "Sequence", "Mapping",
               "CommentedMap", "CommentedSeq", "CommentedSet", "OrderedDict"}


def ann_kind(ann: Optional[ast.AST]) -> str:
    if ann is None:
        return UNKNOWN
    if isinstance(ann, ast.Constant) and isinstance(ann.value, str):
        try:
            ann = ast.parse(ann.value, mode="eval").body
        except SyntaxError:
            return UNKNOWN
    s = src(ann)
    if s == "int":
        return INT
    if s == "str":
        return STR
    if s == "float":
        return FLOAT
    if s == "bool":
        return BOOL
    head = s.split("[")[0].split(".")[-1]
    if head in _CONT_HEADS:
        return CONT
    if head == "Optional" and isinstance(ann, ast.Subscript):
        return UNKNOWN   # may be None
    return UNKNOWN


class Kinds:
    def __init__(self, prog: Program, fi: FuncInfo) -> None:
        self.prog = prog
        self.fi = fi
        self.ann: Dict[str, str] = {}
        self.defs: Dict[str, List[ast.AST]] = {}
        a = fi.node.args
        for arg in a.posonlyargs + a.args + a.kwonlyargs:
            self.ann[arg.arg] = ann_kind(arg.annotation)
        for n in walk_local(fi.node):
            if isinstance(n, ast.AnnAssign) and isinstance(n.target, ast.Name):
                k = ann_kind(n.annotation)
                if k != UNKNOWN:
                    self.ann[n.target.id] = k
                if n.value is not None:
                    self.defs.setdefault(n.target.id, []).append(n.value)
            elif isinstance(n, ast.Assign):
                for t in n.targets:
                    if isinstance(t, ast.Name):
                        self.defs.setdefault(t.id, []).append(n.value)
                    elif isinstance(t, (ast.Tuple, ast.List)):
                        for e in ast.walk(t):
                            if isinstance(e, ast.Name):
                                self.defs.setdefault(e.id, []).append(
                                    ast.Constant(value=Ellipsis))
            elif isinstance(n, ast.AugAssign) and \
                    isinstance(n.target, ast.Name):
                self.defs.setdefault(n.target.id, []).append(n.value)
            elif isinstance(n, (ast.For, ast.comprehension)):
                it, tgt = n.iter, n.target
                if isinstance(it, ast.Call) and \
                        isinstance(it.func, ast.Name) and \
                        it.func.id == "enumerate" and \
                        isinstance(tgt, ast.Tuple) and len(tgt.elts) == 2:
                    if isinstance(tgt.elts[0], ast.Name):
                        self.ann.setdefault(tgt.elts[0].id, INT)
                    for e in ast.walk(tgt.elts[1]):
                        if isinstance(e, ast.Name):
                            self.defs.setdefault(e.id, []).append(
                                ast.Constant(value=Ellipsis))
                elif isinstance(it, ast.Call) and \
                        isinstance(it.func, ast.Name) and \
                        it.func.id == "range" and isinstance(tgt, ast.Name):
                    self.ann.setdefault(tgt.id, INT)
                else:
                    # iterating a str gives str
                    k = self.kind(it) if isinstance(tgt, ast.Name) else None
                    for e in ast.walk(tgt):
                        if isinstance(e, ast.Name):
                            if k == STR and isinstance(tgt, ast.Name):
                                self.ann.setdefault(e.id, STR)
                            else:
                                self.defs.setdefault(e.id, []).append(
                                    ast.Constant(value=Ellipsis))

    def kind(self, e: ast.AST, _seen: Optional[Set[str]] = None) -> str:
        seen = _seen or set()
        if isinstance(e, ast.Constant):
            v = e.value
            if isinstance(v, bool):
                return BOOL
            if isinstance(v, int):
                return INT
            if isinstance(v, float):
                return FLOAT
            if isinstance(v, str):
                return STR
            return UNKNOWN
        if isinstance(e, ast.JoinedStr):
            return STR
        if isinstance(e, (ast.List, ast.Tuple, ast.Set, ast.Dict,
                          ast.ListComp, ast.SetComp, ast.DictComp)):
            return CONT
        if isinstance(e, ast.UnaryOp) and isinstance(e.op, ast.USub):
            return self.kind(e.operand, seen)
        if isinstance(e, ast.BinOp):
            lk, rk = self.kind(e.left, seen), self.kind(e.right, seen)
            if isinstance(e.op, (ast.Add, ast.Sub, ast.Mult)):
                if lk == rk and lk in (INT, STR, FLOAT):
                    return lk
            return UNKNOWN
        if isinstance(e, ast.Call):
            f = e.func
            if isinstance(f, ast.Name):
                if f.id in ("len", "int", "ord", "hash", "id"):
                    return INT
                if f.id in ("str", "repr", "chr"):
                    return STR
                if f.id == "float":
                    return FLOAT
                if f.id in ("list", "dict", "set", "tuple", "sorted",
                            "deque", "frozenset"):
                    return CONT
                if f.id in ("bool", "isinstance", "hasattr"):
                    return BOOL
            if isinstance(f, ast.Attribute):
                if f.attr in ("format", "join", "lower", "upper", "strip",
                              "title", "replace", "lstrip", "rstrip"):
                    return STR
                if f.attr in ("count", "index", "find", "rfind"):
                    return INT
                if f.attr in ("split", "keys", "values", "items", "copy"):
                    return CONT
            for c in resolve_call(self.prog, self.fi, e):
                k = ann_kind(c.node.returns)
                if k != UNKNOWN:
                    return k
            return UNKNOWN
        if isinstance(e, ast.Name):
            if e.id in self.ann and self.ann[e.id] != UNKNOWN:
                return self.ann[e.id]
            if e.id in seen:
                return UNKNOWN
            ds = self.defs.get(e.id)
            if ds:
                ks = set()
                for d in ds:
                    k = self.kind(d, seen | {e.id})
                    if k == UNKNOWN and isinstance(d, ast.Name) and \
                            getattr(d, "_parent", None) is not None:
                        from .guards import facts_at
                        ts = isinstance_types(facts_at(d), d.id)
                        if ts and ts <= {"int"}:
                            k = INT
                        elif ts and ts <= {"str"}:
                            k = STR
                    ks.add(k)
                if len(ks) == 1:
                    return ks.pop()
            return UNKNOWN
        if isinstance(e, ast.Attribute):
            # x.anchor.value  (ruamel Anchor names are str)
            if e.attr == "value" and isinstance(e.value, ast.Attribute) and \
                    e.value.attr == "anchor":
                return STR
            from .model import resolve_property
            for c in resolve_property(self.prog, self.fi, e):
                k = ann_kind(c.node.returns)
                if k != UNKNOWN:
                    return k
            return UNKNOWN
        if isinstance(e, ast.IfExp):
            a, b = self.kind(e.body, seen), self.kind(e.orelse, seen)
            return a if a == b else UNKNOWN
        return UNKNOWN


def isinstance_types(facts: List[Fact], expr_src: str,
                     pol: bool = True) -> Set[str]:
    out: Set[str] = set()
    for f in facts:
        e = f.expr
        if f.kind == "cond" and f.pol == pol and isinstance(e, ast.Call) and \
                isinstance(e.func, ast.Name) and e.func.id == "isinstance" \
                and len(e.args) == 2 and src(e.args[0]) == expr_src:
            t = e.args[1]
            for el in (t.elts if isinstance(t, ast.Tuple) else [t]):
                out.add(src(el).split(".")[-1])
    return out


def not_none_fact(facts: List[Fact], expr_src: str) -> Optional[Fact]:
    for f in facts:
        e = f.expr
        if f.kind != "cond":
            continue
        if isinstance(e, ast.Compare) and len(e.ops) == 1 and \
                src(e.left) == expr_src and \
                isinstance(e.comparators[0], ast.Constant) and \
                e.comparators[0].value is None:
            if (isinstance(e.ops[0], (ast.IsNot, ast.NotEq)) and f.pol) or \
                    (isinstance(e.ops[0], (ast.Is, ast.Eq)) and not f.pol):
                return f
        if f.pol and src(e) == expr_src:
            return f   # truthy
    return None


def hasattr_fact(facts: List[Fact], expr_src: str) -> Optional[Fact]:
    for f in facts:
        e = f.expr
        if f.kind == "cond" and f.pol and isinstance(e, ast.Call) and \
                isinstance(e.func, ast.Name) and e.func.id == "hasattr" and \
                e.args and expr_src.startswith(src(e.args[0]) + "."):
            return f
    return None


class DocTaint:
    """Which locals of a function hold values derived from the document
    (the function's data parameter), and which of those are known hashable
    (mapping keys, set members)."""

    def __init__(self, fi: FuncInfo, data_params: Set[str]) -> None:
        self.fi = fi
        self.doc: Set[str] = set(data_params)
        self.hashable: Set[str] = set()
        for _ in range(4):
            before = (len(self.doc), len(self.hashable))
            for n in walk_local(fi.node):
                if isinstance(n, (ast.Assign, ast.AnnAssign)):
                    val = n.value
                    tgts = n.targets if isinstance(n, ast.Assign) \
                        else [n.target]
                    if val is not None and self.is_doc(val):
                        for t in tgts:
                            if isinstance(t, ast.Name):
                                self.doc.add(t.id)
                            elif isinstance(t, (ast.Tuple, ast.List)):
                                for e in t.elts:
                                    if isinstance(e, ast.Name):
                                        self.doc.add(e.id)
                elif isinstance(n, (ast.For, ast.comprehension)):
                    it, tgt = n.iter, n.target
                    base = it
                    keyish = False
                    if isinstance(it, ast.Call) and \
                            isinstance(it.func, ast.Name) and \
                            it.func.id == "enumerate" and it.args:
                        base = it.args[0]
                        if isinstance(tgt, ast.Tuple) and len(tgt.elts) == 2:
                            tgt = tgt.elts[1]
                    elif isinstance(it, ast.Call) and \
                            isinstance(it.func, ast.Attribute) and \
                            it.func.attr in ("items", "non_merged_items"):
                        base = it.func.value
                        if self.is_doc(base) and \
                                isinstance(tgt, ast.Tuple) and \
                                len(tgt.elts) == 2:
                            for e in ast.walk(tgt.elts[0]):
                                if isinstance(e, ast.Name):
                                    self.doc.add(e.id)
                                    self.hashable.add(e.id)
                            tgt = tgt.elts[1]
                    elif isinstance(it, ast.Call) and \
                            isinstance(it.func, ast.Attribute) and \
                            it.func.attr == "keys":
                        base = it.func.value
                        keyish = True
                    if self.is_doc(base):
                        for e in ast.walk(tgt):
                            if isinstance(e, ast.Name):
                                self.doc.add(e.id)
                                if keyish:
                                    self.hashable.add(e.id)
            if (len(self.doc), len(self.hashable)) == before:
                break

    def is_doc(self, e: ast.AST) -> bool:
        if isinstance(e, ast.Name):
            return e.id in self.doc
        if isinstance(e, ast.Subscript):
            return self.is_doc(e.value)
        if isinstance(e, ast.Attribute):
            if e.attr in ("node", "unwrapped_node", "value"):
                return True if self.is_doc(e.value) or \
                    e.attr in ("node", "unwrapped_node") else False
            return False
        if isinstance(e, ast.IfExp):
            return self.is_doc(e.body) or self.is_doc(e.orelse)
        if isinstance(e, ast.Call):
            f = e.func
            if isinstance(f, ast.Attribute) and \
                    f.attr in ("unwrap_node_coords",) and e.args:
                return self.is_doc(e.args[0])
        return False
