"""Mutation of a container while a *live* iteration over it is running.

``for k in d.keys(): d.insert(...)`` raises RuntimeError (dict/OrderedDict
changed size) or silently skips / repeats elements (list).  The snapshot
idiom -- iterating ``[... for ... in d]``, ``list(d)``, ``sorted(d)`` -- is
safe; so is a size change that is immediately followed by leaving the loop.
A generator expression is *not* a snapshot.
"""
from __future__ import annotations

import ast
from typing import List, Optional, Tuple

from .guards import terminates
from .model import FuncInfo, ancestors, parent, src, walk_local

SIZE_CHANGING = ("insert", "pop", "popitem", "clear", "update", "remove",
                 "discard", "add", "append", "extend", "appendleft",
                 "popleft", "move_to_end")
SNAPSHOTS = ("list", "sorted", "tuple", "set", "frozenset", "dict")
WRAPPERS = ("enumerate", "reversed", "zip", "iter")
VIEWS = ("keys", "values", "items", "non_merged_items")


def iterated_container(it: ast.AST) -> Optional[str]:
    """Source text of the container a loop iterates *live*, or None when
    the iterable is a snapshot or not a plain container expression."""
    e = it
    if isinstance(e, (ast.ListComp, ast.SetComp, ast.DictComp)):
        return None
    if isinstance(e, ast.GeneratorExp):
        e = e.generators[0].iter
    for _ in range(3):
        if isinstance(e, ast.Call) and isinstance(e.func, ast.Name):
            if e.func.id in SNAPSHOTS:
                return None
            if e.func.id in WRAPPERS and e.args:
                e = e.args[0]
                continue
        break
    if isinstance(e, (ast.ListComp, ast.SetComp, ast.DictComp)):
        return None
    if isinstance(e, ast.Call) and isinstance(e.func, ast.Attribute) and \
            e.func.attr in VIEWS and not e.args:
        e = e.func.value
    if isinstance(e, (ast.Name, ast.Attribute)):
        return src(e)
    return None


def live_mutations(fi: FuncInfo) -> Tuple[List[Tuple[ast.For, ast.AST, str]],
                                          int]:
    """(loop, mutation node, description) for every size-changing mutation
    of the container a loop is iterating live that is not immediately
    followed by leaving the loop; and the number of loops examined."""
    out: List[Tuple[ast.For, ast.AST, str]] = []
    n = 0
    for loop in walk_local(fi.node):
        if not isinstance(loop, ast.For):
            continue
        cont = iterated_container(loop.iter)
        if cont is None:
            continue
        n += 1
        for x in walk_local(loop):
            what = None
            if isinstance(x, ast.Call) and isinstance(x.func, ast.Attribute) \
                    and x.func.attr in SIZE_CHANGING and \
                    src(x.func.value) == cont:
                what = "{}.{}()".format(cont, x.func.attr)
            elif isinstance(x, ast.Subscript) and isinstance(x.ctx, ast.Del) \
                    and src(x.value) == cont:
                what = "del {}[...]".format(cont)
            if what is None:
                continue
            # nearest loop must be this one, and the statement must be
            # followed by a leave in its own block
            nearest = next((a for a in ancestors(x)
                            if isinstance(a, (ast.For, ast.While))), None)
            st: ast.AST = x
            while not isinstance(st, ast.stmt):
                st = parent(st)  # type: ignore[assignment]
            blk_owner = parent(st)
            leaves = False
            for field in ("body", "orelse", "finalbody"):
                blk = getattr(blk_owner, field, None)
                if isinstance(blk, list) and st in blk:
                    leaves = terminates(blk[blk.index(st):])
            if leaves and nearest is loop:
                continue
            out.append((loop, x, what))
    return out, n
