"""Truth-table evaluation of boolean expression ASTs over named atoms."""
from __future__ import annotations

import ast
import itertools
from typing import Dict, List, Optional, Tuple

from .model import src


class NotBoolean(Exception):
    pass


def _ev(expr: ast.AST, val: Dict[str, bool]) -> bool:
    key = src(expr)
    if key in val:
        return val[key]
    if isinstance(expr, ast.Constant) and isinstance(expr.value, bool):
        return expr.value
    if isinstance(expr, ast.UnaryOp) and isinstance(expr.op, ast.Not):
        return not _ev(expr.operand, val)
    if isinstance(expr, ast.BoolOp):
        vals = [_ev(v, val) for v in expr.values]
        return all(vals) if isinstance(expr.op, ast.And) else any(vals)
    if isinstance(expr, ast.IfExp):
        return _ev(expr.body, val) if _ev(expr.test, val) \
            else _ev(expr.orelse, val)
    if isinstance(expr, ast.Compare) and len(expr.ops) == 1:
        op = expr.ops[0]
        if isinstance(op, (ast.Is, ast.Eq, ast.IsNot, ast.NotEq)):
            try:
                a = _ev(expr.left, val)
                b = _ev(expr.comparators[0], val)
            except NotBoolean:
                raise
            same = a == b
            return same if isinstance(op, (ast.Is, ast.Eq)) else not same
    if isinstance(expr, ast.BinOp) and isinstance(expr.op, ast.BitXor):
        return _ev(expr.left, val) != _ev(expr.right, val)
    if isinstance(expr, ast.Call) and isinstance(expr.func, ast.Name) and \
            expr.func.id == "bool" and len(expr.args) == 1:
        return _ev(expr.args[0], val)
    raise NotBoolean(src(expr))


def truth_table(expr: ast.AST, atoms: List[str]
                ) -> Dict[Tuple[bool, ...], bool]:
    """Evaluate ``expr`` for every assignment of the atoms (source texts).
    Raises NotBoolean if the expression uses anything else."""
    out: Dict[Tuple[bool, ...], bool] = {}
    for combo in itertools.product([False, True], repeat=len(atoms)):
        out[combo] = _ev(expr, dict(zip(atoms, combo)))
    return out


def is_xor(expr: ast.AST, a: str, b: str) -> Optional[bool]:
    """True iff expr == (a XOR b); None when not a boolean form of a, b."""
    try:
        tt = truth_table(expr, [a, b])
    except NotBoolean:
        return None
    return all(tt[(x, y)] == (x != y)
               for x in (False, True) for y in (False, True))


def is_xnor(expr: ast.AST, a: str, b: str) -> Optional[bool]:
    try:
        tt = truth_table(expr, [a, b])
    except NotBoolean:
        return None
    return all(tt[(x, y)] == (x == y)
               for x in (False, True) for y in (False, True))
