"""Local aliases, call-site maps and interprocedural invariants.

* ``aliases(fi)``: locals with a single definition whose right-hand side is
  a simple pure expression of never-reassigned names (``n = len(x)``,
  ``segments = yaml_path.escaped``, ``next_idx = segment_index + 1``).
  ``subst(expr, amap)`` rewrites an expression in terms of the originals.
* ``call_sites(prog, callee)``: every resolved call of ``callee``.
* ``nonneg``: which ``int`` parameters are non-negative at every call site
  (greatest fixpoint), and whether an expression is non-negative.
* ``prove_at_callers``: discharge an obligation about a callee's parameters
  at every call site (coinductively through pass-through recursion).
"""
from __future__ import annotations

import ast
from typing import Callable, Dict, List, Optional, Set, Tuple

from .guards import MUTATORS, assigned_names, names_in, root_name
from .model import (FuncInfo, Program, resolve_call, src, types_of,
                    walk_local)

# --------------------------------------------------------------------------
# aliases
# --------------------------------------------------------------------------
_ALIAS_CACHE: Dict[int, Dict[str, ast.AST]] = {}


def _defs(fi: FuncInfo) -> Dict[str, List[ast.AST]]:
    """name -> list of defining nodes (Assign/AnnAssign/AugAssign/For/...)."""
    out: Dict[str, List[ast.AST]] = {}
    for n in walk_local(fi.node):
        if isinstance(n, ast.Name) and isinstance(n.ctx, (ast.Store, ast.Del)):
            from .model import parent
            p = parent(n)
            # climb to the statement-ish definer
            cur: ast.AST = n
            while p is not None and not isinstance(
                    p, (ast.Assign, ast.AnnAssign, ast.AugAssign, ast.For,
                        ast.comprehension, ast.With, ast.withitem,
                        ast.ExceptHandler, ast.NamedExpr, ast.Delete,
                        ast.Import, ast.ImportFrom)):
                cur = p
                p = parent(p)
            out.setdefault(n.id, []).append(p if p is not None else n)
        elif isinstance(n, ast.ExceptHandler) and n.name:
            out.setdefault(n.name, []).append(n)
    return out


def _mutated(fi: FuncInfo) -> Set[str]:
    """Names whose object is mutated in the function (method mutators,
    subscript/attribute stores)."""
    out: Set[str] = set()
    for n in walk_local(fi.node):
        if isinstance(n, (ast.Subscript, ast.Attribute)) and \
                isinstance(n.ctx, (ast.Store, ast.Del)):
            r = root_name(n)
            if r:
                out.add(r)
        elif isinstance(n, ast.Call) and isinstance(n.func, ast.Attribute) \
                and n.func.attr in MUTATORS:
            r = root_name(n.func.value)
            if r:
                out.add(r)
    return out


def _simple(expr: ast.AST) -> bool:
    if isinstance(expr, ast.Name):
        return True
    if isinstance(expr, ast.Constant):
        return isinstance(expr.value, (int, str)) or expr.value is None
    if isinstance(expr, ast.Attribute):
        return _simple(expr.value)
    if isinstance(expr, ast.Call) and isinstance(expr.func, ast.Name) and \
            expr.func.id in ("len", "str") and len(expr.args) == 1 and \
            not expr.keywords:
        return _simple(expr.args[0])
    if isinstance(expr, ast.BinOp) and isinstance(expr.op, (ast.Add, ast.Sub)):
        return _simple(expr.left) and _simple(expr.right)
    if isinstance(expr, ast.Subscript) and not isinstance(expr.slice, ast.Slice):
        return _simple(expr.value) and _simple(expr.slice)
    return False


def aliases(fi: FuncInfo) -> Dict[str, ast.AST]:
    key = id(fi.node)
    if key in _ALIAS_CACHE:
        return _ALIAS_CACHE[key]
    defs = _defs(fi)
    mutated = _mutated(fi)
    params = set(a.arg for a in fi.node.args.posonlyargs + fi.node.args.args
                 + fi.node.args.kwonlyargs)
    if fi.node.args.vararg:
        params.add(fi.node.args.vararg.arg)
    if fi.node.args.kwarg:
        params.add(fi.node.args.kwarg.arg)
    stable: Set[str] = set()
    for p in params:
        if p not in defs:
            stable.add(p)
    amap: Dict[str, ast.AST] = {}
    changed = True
    while changed:
        changed = False
        for name, dl in defs.items():
            if name in amap or name in params or len(dl) != 1:
                continue
            d = dl[0]
            val = None
            if isinstance(d, ast.Assign) and len(d.targets) == 1 and \
                    isinstance(d.targets[0], ast.Name):
                val = d.value
            elif isinstance(d, ast.AnnAssign) and \
                    isinstance(d.target, ast.Name):
                val = d.value
            if val is None or not _simple(val):
                continue
            free = names_in(val) - {"len", "str"}
            if not all((v in stable or v in amap) for v in free):
                continue
            # the aliased *value* must stay in step with its source: sources
            # whose length/content is mutated are still fine for len() facts
            # only if the local is not used after the mutation; stay strict.
            if name in mutated:
                continue
            if any(v in mutated for v in free) and \
                    not isinstance(val, (ast.Name, ast.Attribute)):
                continue
            amap[name] = val
            changed = True
    _ALIAS_CACHE[key] = amap
    return amap


def clone(node: ast.AST) -> ast.AST:
    """Copy an expression by its ``_fields`` only (no parent links)."""
    new = node.__class__()
    for field in node._fields:
        val = getattr(node, field, None)
        if isinstance(val, ast.AST):
            val = clone(val)
        elif isinstance(val, list):
            val = [clone(v) if isinstance(v, ast.AST) else v for v in val]
        setattr(new, field, val)
    for attr in ("lineno", "col_offset", "end_lineno", "end_col_offset"):
        if hasattr(node, attr):
            setattr(new, attr, getattr(node, attr))
    return new


def _subst(node: ast.AST, amap: Dict[str, ast.AST], depth: int) -> ast.AST:
    if isinstance(node, ast.Name) and isinstance(node.ctx, ast.Load) and \
            node.id in amap and depth < 8:
        return _subst(amap[node.id], amap, depth + 1)
    new = node.__class__()
    for field in node._fields:
        val = getattr(node, field, None)
        if isinstance(val, ast.AST):
            val = _subst(val, amap, depth)
        elif isinstance(val, list):
            val = [_subst(v, amap, depth) if isinstance(v, ast.AST) else v
                   for v in val]
        setattr(new, field, val)
    for attr in ("lineno", "col_offset", "end_lineno", "end_col_offset"):
        if hasattr(node, attr):
            setattr(new, attr, getattr(node, attr))
    return new


def subst(expr: ast.AST, amap: Dict[str, ast.AST]) -> ast.AST:
    if not amap:
        return expr
    if not any(isinstance(n, ast.Name) and n.id in amap
               for n in ast.walk(expr)):
        return expr
    return _subst(expr, amap, 0)


# --------------------------------------------------------------------------
# call sites
# --------------------------------------------------------------------------
_CALLSITE_CACHE: Dict[int, Dict[str, List[Tuple[FuncInfo, ast.Call]]]] = {}


def all_call_sites(prog: Program) -> Dict[str, List[Tuple[FuncInfo, ast.Call]]]:
    key = id(prog)
    if key in _CALLSITE_CACHE:
        return _CALLSITE_CACHE[key]
    out: Dict[str, List[Tuple[FuncInfo, ast.Call]]] = {}
    for fi in prog.functions.values():
        types = types_of(prog, fi)
        for n in walk_local(fi.node):
            if isinstance(n, ast.Call):
                for c in resolve_call(prog, fi, n, types):
                    out.setdefault(c.qual, []).append((fi, n))
    _CALLSITE_CACHE.clear()
    _CALLSITE_CACHE[key] = out
    return out


def call_sites(prog: Program, callee: FuncInfo
               ) -> List[Tuple[FuncInfo, ast.Call]]:
    return all_call_sites(prog).get(callee.qual, [])


def arg_map(callee: FuncInfo, call: ast.Call) -> Optional[Dict[str, ast.AST]]:
    """param name -> argument expression (defaults for absent ones).
    None when the call uses *args / positional overflow."""
    a = callee.node.args
    params = [x.arg for x in a.posonlyargs + a.args]
    defaults: Dict[str, ast.AST] = {}
    for p, d in zip(reversed(a.posonlyargs + a.args), reversed(a.defaults)):
        defaults[p.arg] = d
    for p, d in zip(a.kwonlyargs, a.kw_defaults):
        if d is not None:
            defaults[p.arg] = d
    if callee.cls is not None and not callee.is_static and params and \
            params[0] in ("self", "cls"):
        # bound call: Class.m(obj, ...) style is not used in this code base
        if not (isinstance(call.func, ast.Attribute) and
                isinstance(call.func.value, ast.Name) and
                call.func.value.id == callee.cls.name):
            params = params[1:]
    out: Dict[str, ast.AST] = {}
    if any(isinstance(x, ast.Starred) for x in call.args):
        return None
    if len(call.args) > len(params):
        return None
    for p, arg in zip(params, call.args):
        out[p] = arg
    for kw in call.keywords:
        if kw.arg is not None:
            out[kw.arg] = kw.value
    for p in params + [x.arg for x in a.kwonlyargs]:
        if p not in out and p in defaults:
            out[p] = defaults[p]
    return out


# --------------------------------------------------------------------------
# non-negativity
# --------------------------------------------------------------------------
class NonNeg:
    def __init__(self, prog: Program) -> None:
        self.prog = prog
        self.params: Set[Tuple[str, str]] = set()   # (func qual, param)
        self._solve()

    def _candidates(self) -> Set[Tuple[str, str]]:
        out: Set[Tuple[str, str]] = set()
        for fi in self.prog.functions.values():
            a = fi.node.args
            for arg in a.posonlyargs + a.args + a.kwonlyargs:
                if arg.annotation is not None and src(arg.annotation) == "int":
                    out.add((fi.qual, arg.arg))
        return out

    def _solve(self) -> None:
        self.params = self._candidates()
        sites = all_call_sites(self.prog)
        changed = True
        while changed:
            changed = False
            for (q, p) in sorted(self.params):
                callee = self.prog.functions[q]
                if p in assigned_names(callee.node, mutation=False) - set():
                    # re-assigned inside: require those defs non-negative too
                    pass
                ok = True
                cs = sites.get(q, [])
                if not cs:
                    ok = False
                for caller, call in cs:
                    am = arg_map(callee, call)
                    if am is None or p not in am:
                        ok = False
                        break
                    if not self.expr(am[p], caller):
                        ok = False
                        break
                if not ok:
                    self.params.discard((q, p))
                    changed = True

    def expr(self, e: ast.AST, fi: FuncInfo,
             _seen: Optional[Set[str]] = None) -> bool:
        seen = _seen or set()
        if isinstance(e, ast.Constant):
            return isinstance(e.value, int) and not isinstance(e.value, bool) \
                and e.value >= 0
        if isinstance(e, ast.Call) and isinstance(e.func, ast.Name) and \
                e.func.id == "len":
            return True
        if isinstance(e, ast.BinOp) and isinstance(e.op, ast.Add):
            return self.expr(e.left, fi, seen) and self.expr(e.right, fi, seen)
        if isinstance(e, ast.Name):
            name = e.id
            if name in seen:
                return True
            seen = seen | {name}
            defs = _defs(fi).get(name, [])
            is_param = name in [a.arg for a in fi.node.args.posonlyargs +
                                fi.node.args.args + fi.node.args.kwonlyargs]
            if is_param and (fi.qual, name) not in self.params:
                return False
            if not is_param and not defs:
                return False
            for d in defs:
                if isinstance(d, ast.Assign) and len(d.targets) == 1 and \
                        isinstance(d.targets[0], ast.Name):
                    if not self.expr(d.value, fi, seen):
                        return False
                elif isinstance(d, ast.AnnAssign) and d.value is not None \
                        and isinstance(d.target, ast.Name):
                    if not self.expr(d.value, fi, seen):
                        return False
                elif isinstance(d, ast.AugAssign) and \
                        isinstance(d.op, ast.Add):
                    if not self.expr(d.value, fi, seen):
                        return False
                elif isinstance(d, (ast.For, ast.comprehension)):
                    it = d.iter
                    tgt = d.target
                    if isinstance(it, ast.Call) and \
                            isinstance(it.func, ast.Name):
                        if it.func.id == "enumerate" and \
                                isinstance(tgt, ast.Tuple) and tgt.elts and \
                                isinstance(tgt.elts[0], ast.Name) and \
                                tgt.elts[0].id == name:
                            continue
                        if it.func.id == "range" and \
                                isinstance(tgt, ast.Name) and \
                                tgt.id == name:
                            if len(it.args) == 1 or (
                                    len(it.args) == 2 and
                                    self.expr(it.args[0], fi, seen)):
                                continue
                    return False
                else:
                    return False
            return True
        return False


_NONNEG: Dict[int, NonNeg] = {}


def nonneg(prog: Program) -> NonNeg:
    key = id(prog)
    if key not in _NONNEG:
        _NONNEG.clear()
        _NONNEG[key] = NonNeg(prog)
    return _NONNEG[key]


# --------------------------------------------------------------------------
# obligations discharged at the callers
# --------------------------------------------------------------------------
def prove_at_callers(
        prog: Program, fi: FuncInfo, exprs: List[ast.AST],
        local_proof: Callable[[FuncInfo, ast.AST, List[ast.AST]],
                              Optional[str]],
        _assume: Optional[Set[Tuple[str, str]]] = None,
        _depth: int = 0) -> Optional[str]:
    """``exprs`` are expressions over parameters of ``fi`` (after alias
    expansion).  At every call site of ``fi`` the expressions are rewritten
    into the caller's terms and ``local_proof(caller, call, exprs')`` is
    asked; if it fails and the rewritten expressions only mention the
    caller's own (unmodified) parameters, the obligation moves up to the
    caller's callers.  Recursion through pass-through self-calls is treated
    coinductively."""
    assume = _assume if _assume is not None else set()
    key = (fi.qual, "|".join(src(e) for e in exprs))
    if key in assume:
        return "by induction"
    if _depth > 6:
        return None
    params = set(a.arg for a in fi.node.args.posonlyargs + fi.node.args.args
                 + fi.node.args.kwonlyargs)
    reassigned = assigned_names(fi.node, mutation=False)
    free: Set[str] = set()
    for e in exprs:
        free |= names_in(e)
    free -= {"len", "str", "int"}
    if not free <= params or (free & reassigned):
        return None
    sites = call_sites(prog, fi)
    if not sites:
        return None
    assume = assume | {key}
    reasons: List[str] = []
    for caller, call in sites:
        am = arg_map(fi, call)
        if am is None or not free <= set(am):
            return None
        rew = [subst(e, {k: am[k] for k in free}) for e in exprs]
        rew = [subst(e, aliases(caller)) for e in rew]
        why = local_proof(caller, call, rew)
        if why is None:
            why = prove_at_callers(prog, caller, rew, local_proof,
                                   assume, _depth + 1)
            if why is None:
                return None
            why = "via callers of {} ({})".format(caller.short, why)
        reasons.append("{}:{} {}".format(
            caller.short, call.lineno, why))
    return "every call site: " + "; ".join(sorted(set(reasons))[:4])
