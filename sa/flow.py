"""Syntax-directed abstract interpreter over structured Python statements.

States are hashable values; the interpreter keeps *sets* of states (a
disjunctive domain with a cap), which makes it path-sensitive for the small
finite domains used by the rules (typestate, exit-state, stack depth).

A client supplies

* ``transfer(stmt, state) -> iterable of states``  for simple statements
  (an empty result means the statement never completes normally, e.g.
  ``sys.exit``); it may call ``ctx.event(kind, node, state)`` to record
  observations;
* ``branch(test, state) -> (iter_true, iter_false)`` for conditions;
* optionally ``bind(target, iter_expr, state)`` for ``for`` targets and
  ``except_entry(handler, state)``.

Supported statements: if/elif/else, for/else, while/else, try/except/else/
finally, with, return, raise, break, continue, and simple statements.
"""
from __future__ import annotations

import ast
from typing import (Any, Callable, Dict, FrozenSet, Hashable, Iterable, List,
                    Optional, Set, Tuple)

State = Hashable
States = FrozenSet[State]

CAP = 4096


class Outcome:
    """States by the way a block is left."""

    def __init__(self) -> None:
        self.fall: Set[State] = set()
        self.returns: Set[Tuple[State, ast.AST]] = set()
        self.raises: Set[Tuple[State, ast.AST]] = set()
        self.breaks: Set[State] = set()
        self.continues: Set[State] = set()
        self.exits: Set[Tuple[State, ast.AST]] = set()  # never-returning call

    def absorb(self, other: "Outcome", fall: bool = False) -> None:
        if fall:
            self.fall |= other.fall
        self.returns |= other.returns
        self.raises |= other.raises
        self.breaks |= other.breaks
        self.continues |= other.continues
        self.exits |= other.exits


class Flow:
    def __init__(self,
                 transfer: Callable[[ast.stmt, State, "Flow"], Iterable[State]],
                 branch: Callable[[ast.AST, State, "Flow"],
                                  Tuple[Iterable[State], Iterable[State]]],
                 bind: Optional[Callable[[ast.AST, ast.AST, State, "Flow"],
                                         Iterable[State]]] = None,
                 raising: Optional[Callable[[ast.stmt, State, "Flow"],
                                            bool]] = None,
                 handler_entry: Optional[Callable[
                     [ast.ExceptHandler, State, "Flow"],
                     Iterable[State]]] = None,
                 max_iter: int = 50) -> None:
        self.transfer = transfer
        self.branch = branch
        self.bind = bind
        self.raising = raising
        self.handler_entry = handler_entry
        self.max_iter = max_iter
        self.events: List[Tuple[str, ast.AST, State, Any]] = []
        self._try_stack: List[Set[State]] = []
        self.steps = 0

    # -- observation -----------------------------------------------------
    def event(self, kind: str, node: ast.AST, state: State,
              info: Any = None) -> None:
        self.events.append((kind, node, state, info))

    # -- driver ----------------------------------------------------------
    def run(self, stmts: List[ast.stmt], init: Iterable[State]) -> Outcome:
        out = Outcome()
        cur: Set[State] = set(init)
        for stmt in stmts:
            if not cur:
                break
            nxt: Set[State] = set()
            for st in cur:
                o = self._stmt(stmt, st)
                out.absorb(o)
                nxt |= o.fall
            if len(nxt) > CAP:
                raise OverflowError("state explosion")
            cur = nxt
        out.fall = cur
        return out

    def _note(self, st: State) -> None:
        for coll in self._try_stack:
            coll.add(st)

    def _stmt(self, stmt: ast.stmt, st: State) -> Outcome:
        self.steps += 1
        out = Outcome()
        if isinstance(stmt, ast.If):
            t, f = self.branch(stmt.test, st, self)
            o1 = self.run(stmt.body, t)
            o2 = self.run(stmt.orelse, f) if stmt.orelse else None
            out.absorb(o1, fall=True)
            if o2 is not None:
                out.absorb(o2, fall=True)
            else:
                out.fall |= set(f)
            return out
        if isinstance(stmt, (ast.For, ast.AsyncFor)):
            return self._loop(stmt, st, None)
        if isinstance(stmt, ast.While):
            return self._loop(stmt, st, stmt.test)
        if isinstance(stmt, ast.Try):
            return self._try(stmt, st)
        if isinstance(stmt, (ast.With, ast.AsyncWith)):
            cur = {st}
            for item in stmt.items:
                nxt: Set[State] = set()
                fake = ast.Expr(value=item.context_expr)
                ast.copy_location(fake, stmt)
                fake._with_item = item  # type: ignore[attr-defined]
                fake._parent = stmt  # type: ignore[attr-defined]
                for s in cur:
                    self._note(s)
                    nxt |= set(self.transfer(fake, s, self))
                cur = nxt
            o = self.run(stmt.body, cur)
            out.absorb(o, fall=True)
            return out
        if isinstance(stmt, ast.Return):
            self._note(st)
            res = set(self.transfer(stmt, st, self))
            for s in res:
                out.returns.add((s, stmt))
            return out
        if isinstance(stmt, ast.Raise):
            self._note(st)
            res = set(self.transfer(stmt, st, self))
            for s in res:
                out.raises.add((s, stmt))
            return out
        if isinstance(stmt, ast.Break):
            out.breaks.add(st)
            return out
        if isinstance(stmt, ast.Continue):
            out.continues.add(st)
            return out
        if isinstance(stmt, (ast.FunctionDef, ast.AsyncFunctionDef,
                             ast.ClassDef, ast.Pass, ast.Import,
                             ast.ImportFrom, ast.Global, ast.Nonlocal)):
            out.fall.add(st)
            return out
        # simple statement
        self._note(st)
        res = set(self.transfer(stmt, st, self))
        if not res:
            out.exits.add((st, stmt))
        for s in res:
            self._note(s)
        out.fall = res
        return out

    def _loop(self, stmt: ast.stmt, st: State,
              test: Optional[ast.AST]) -> Outcome:
        out = Outcome()
        head: Set[State] = {st}
        seen: Set[State] = set()
        exit_states: Set[State] = set()
        for _ in range(self.max_iter):
            new = head - seen
            if not new:
                break
            seen |= new
            body_in: Set[State] = set()
            for s in new:
                if test is not None:
                    t, f = self.branch(test, s, self)
                    body_in |= set(t)
                    exit_states |= set(f)
                else:
                    exit_states.add(s)  # iterator may be exhausted
                    if self.bind is not None:
                        body_in |= set(self.bind(
                            stmt.target, stmt.iter, s, self))  # type: ignore
                    else:
                        body_in.add(s)
            o = self.run(stmt.body, body_in)  # type: ignore[attr-defined]
            out.returns |= o.returns
            out.raises |= o.raises
            out.exits |= o.exits
            out.fall |= o.breaks      # break skips the else clause
            head = set(o.fall) | set(o.continues)
            if len(seen) > CAP:
                raise OverflowError("state explosion in loop")
        else:
            raise OverflowError("loop fixpoint not reached")
        orelse = getattr(stmt, "orelse", [])
        if orelse:
            o2 = self.run(orelse, exit_states)
            out.absorb(o2, fall=True)
        else:
            out.fall |= exit_states
        return out

    def _try(self, stmt: ast.Try, st: State) -> Outcome:
        out = Outcome()
        coll: Set[State] = set()
        self._try_stack.append(coll)
        try:
            body = self.run(stmt.body, {st})
        finally:
            self._try_stack.pop()
        coll.add(st)
        # states in which an exception may be raised inside the body: every
        # intermediate state, plus explicit raises
        raised_states: Set[State] = set(coll) | {s for s, _ in body.raises}
        normal = Outcome()
        normal.fall = set(body.fall)
        normal.returns = set(body.returns)
        normal.breaks = set(body.breaks)
        normal.continues = set(body.continues)
        normal.exits = set(body.exits)
        catches_all = False
        for h in stmt.handlers:
            entry: Set[State] = set()
            for s in raised_states:
                if self.handler_entry is not None:
                    entry |= set(self.handler_entry(h, s, self))
                else:
                    entry.add(s)
            ho = self.run(h.body, entry)
            normal.absorb(ho, fall=True)
            if h.type is None or (isinstance(h.type, ast.Name) and
                                  h.type.id in ("Exception",
                                                "BaseException")):
                catches_all = True
        if not catches_all:
            # explicit raises of the body may propagate (class matching is
            # the client's business: it can inspect the raise node)
            normal.raises |= body.raises
        if stmt.orelse:
            eo = self.run(stmt.orelse, normal.fall)
            tmp = Outcome()
            tmp.absorb(normal)
            tmp.absorb(eo, fall=True)
            normal = tmp
        if stmt.finalbody:
            fin = Outcome()
            fo = self.run(stmt.finalbody, normal.fall)
            fin.absorb(fo, fall=True)
            for s, n in normal.returns:
                r = self.run(stmt.finalbody, {s})
                fin.absorb(r)
                fin.returns |= {(x, n) for x in r.fall}
            for s, n in normal.raises:
                r = self.run(stmt.finalbody, {s})
                fin.absorb(r)
                fin.raises |= {(x, n) for x in r.fall}
            for s in normal.breaks:
                r = self.run(stmt.finalbody, {s})
                fin.absorb(r)
                fin.breaks |= r.fall
            for s in normal.continues:
                r = self.run(stmt.finalbody, {s})
                fin.absorb(r)
                fin.continues |= r.fall
            fin.exits |= normal.exits
            return fin
        return normal
