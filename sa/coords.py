"""Coordinate consistency: (node, parent, parentref, path, ancestry) tuples
must be derived from one container/key pair.

Used for ``NodeCoords(...)`` construction sites and for evaluator-to-
evaluator calls that pass coordinates as keywords.
"""
from __future__ import annotations

import ast
from typing import Dict, List, Optional, Set, Tuple

from .guards import Fact, assigned_names, facts_at
from .model import (FUNC_TYPES, FuncInfo, ancestors, enclosing_stmt, parent,
                    src, walk_local)


# --------------------------------------------------------------------------
# reaching definitions (structured, dominating only)
# --------------------------------------------------------------------------
def _block_and_index(stmt: ast.stmt) -> Tuple[Optional[List[ast.stmt]], int,
                                              Optional[ast.AST]]:
    par = parent(stmt)
    if par is None:
        return None, -1, None
    for field in ("body", "orelse", "finalbody"):
        blk = getattr(par, field, None)
        if isinstance(blk, list) and stmt in blk:
            return blk, blk.index(stmt), par
    if isinstance(par, ast.Try):
        for h in par.handlers:
            if stmt in h.body:
                return h.body, h.body.index(stmt), h
    return None, -1, par


def reaching_def(name: str, at: ast.AST) -> Optional[ast.AST]:
    """The value expression of the unique dominating assignment to ``name``
    that reaches ``at`` (nearest preceding top-level assignment in the
    enclosing blocks); None when ambiguous or absent."""
    cur: ast.AST = at if isinstance(at, ast.stmt) else enclosing_stmt(at)
    while True:
        blk, i, par = _block_and_index(cur)  # type: ignore[arg-type]
        if blk is None:
            return None
        for k in range(i - 1, -1, -1):
            prev = blk[k]
            if isinstance(prev, ast.Assign) and len(prev.targets) == 1 and \
                    isinstance(prev.targets[0], ast.Name) and \
                    prev.targets[0].id == name:
                return None if _stale_len(prev.value, blk[k + 1:i]) \
                    else prev.value
            if isinstance(prev, ast.AnnAssign) and \
                    isinstance(prev.target, ast.Name) and \
                    prev.target.id == name and prev.value is not None:
                return None if _stale_len(prev.value, blk[k + 1:i]) \
                    else prev.value
            if name in assigned_names(prev, mutation=False):
                return None   # assigned inside a compound statement
        if par is None or isinstance(par, FUNC_TYPES):
            return None
        if isinstance(par, (ast.For, ast.AsyncFor)) and \
                name in {n.id for n in ast.walk(par.target)
                         if isinstance(n, ast.Name)}:
            return None       # loop-bound
        if isinstance(par, ast.ExceptHandler):
            par = parent(par)
        if not isinstance(par, ast.stmt):
            return None
        cur = par


_GROWERS = ("append", "insert", "extend", "pop", "remove", "clear", "add",
            "discard", "append_list_element")


def _stale_len(value: ast.AST, between: List[ast.stmt]) -> bool:
    """``value`` reads ``len(X)`` and a statement between the definition
    and the use changes the size of X: the definition no longer describes
    the value at the use (``i = len(d) - 1`` taken *before* an append is
    not the index of the appended element)."""
    sized = {src(c.args[0]) for c in ast.walk(value)
             if isinstance(c, ast.Call) and isinstance(c.func, ast.Name) and
             c.func.id == "len" and len(c.args) == 1}
    if not sized:
        return False
    for st in between:
        for c in ast.walk(st):
            if isinstance(c, ast.Call) and isinstance(c.func, ast.Attribute):
                if c.func.attr in _GROWERS and (
                        src(c.func.value) in sized or
                        any(src(a) in sized for a in c.args[:1])):
                    return True
            if isinstance(c, ast.Delete):
                for t in c.targets:
                    if isinstance(t, ast.Subscript) and src(t.value) in sized:
                        return True
    return False


def loop_binding(name: str, at: ast.AST
                 ) -> Optional[Tuple[str, ast.AST, Optional[ast.AST]]]:
    """How ``name`` is bound by an enclosing for loop / comprehension:
    ('enumerate', C, index_target) | ('items', C, key_target) |
    ('iter', C, None) | ('index', C, None) for the index of enumerate."""
    for anc in ancestors(at):
        if isinstance(anc, FUNC_TYPES):
            break
        gens: List[Tuple[ast.AST, ast.AST]] = []
        if isinstance(anc, (ast.For, ast.AsyncFor)):
            gens = [(anc.target, anc.iter)]
        elif isinstance(anc, (ast.ListComp, ast.SetComp, ast.GeneratorExp,
                              ast.DictComp)):
            gens = [(g.target, g.iter) for g in anc.generators]
        for tgt, it in gens:
            names = {n.id for n in ast.walk(tgt) if isinstance(n, ast.Name)}
            if name not in names:
                continue
            # a snapshot of the view binds the same (key, value) pairs
            while isinstance(it, ast.Call) and isinstance(it.func, ast.Name) \
                    and it.func.id in ("list", "tuple") and \
                    len(it.args) == 1 and not it.keywords:
                it = it.args[0]
            if isinstance(it, ast.Call) and isinstance(it.func, ast.Name) \
                    and it.func.id == "enumerate" and it.args and \
                    isinstance(tgt, ast.Tuple) and len(tgt.elts) == 2:
                if src(tgt.elts[1]) == name:
                    return ("enumerate", it.args[0], tgt.elts[0])
                if src(tgt.elts[0]) == name:
                    return ("index", it.args[0], None)
            if isinstance(it, ast.Call) and \
                    isinstance(it.func, ast.Attribute) and \
                    it.func.attr in ("items", "non_merged_items") and \
                    isinstance(tgt, ast.Tuple) and len(tgt.elts) == 2:
                if src(tgt.elts[1]) == name:
                    return ("items", it.func.value, tgt.elts[0])
                if src(tgt.elts[0]) == name:
                    return ("key", it.func.value, None)
            if isinstance(tgt, ast.Name) and tgt.id == name:
                if isinstance(it, ast.Call) and \
                        isinstance(it.func, ast.Attribute) and \
                        it.func.attr == "keys":
                    return ("key", it.func.value, None)
                return ("iter", it, None)
            return None
    return None


def variants(expr: ast.AST, at: ast.AST, depth: int = 0,
             strict: bool = False) -> Set[str]:
    """Source texts denoting the same value as ``expr`` up to text/number
    conversion: through reaching definitions, ``str()``/``int()`` wrappers,
    ``x.value if isinstance(x, TaggedScalar) else x`` and unwrap helpers."""
    out: Set[str] = {src(expr)}
    if depth > 4:
        return out
    if isinstance(expr, ast.Call) and isinstance(expr.func, ast.Name) and \
            expr.func.id in ("str", "int") and len(expr.args) == 1:
        # ``strict``: a key and its text/number conversion are different
        # keys of a mapping (d["80"] is not d[80])
        if not strict:
            out |= variants(expr.args[0], at, depth + 1, strict)
    elif isinstance(expr, ast.Call) and \
            src(expr.func).endswith("unwrap_node_coords") and expr.args:
        out |= variants(expr.args[0], at, depth + 1, strict)
    elif isinstance(expr, ast.IfExp):
        # a conditional denotes a value only if both arms do (the unwrap
        # idiom `x.value if isinstance(x, T) else x` does: `.value` of x is
        # a variant of x)
        vb = variants(expr.body, at, depth + 1, strict)
        vo = variants(expr.orelse, at, depth + 1, strict)
        out |= (vb & vo)
    elif isinstance(expr, ast.Attribute) and expr.attr == "value":
        out |= variants(expr.value, at, depth + 1, strict)
    elif isinstance(expr, ast.Name):
        d = reaching_def(expr.id, at)
        if d is not None:
            out |= variants(d, at, depth + 1, strict)
    return out


def same_value(a: ast.AST, b: ast.AST, at: ast.AST,
               strict: bool = False) -> bool:
    return bool(variants(a, at, 0, strict) & variants(b, at, 0, strict))


def equal_by_fact(a: ast.AST, b: ast.AST, at: ast.AST,
                  strict: bool = False) -> Optional[Fact]:
    va, vb = variants(a, at, 0, strict), variants(b, at, 0, strict)
    for f in facts_at(at):
        e = f.expr
        if f.kind == "cond" and f.pol and isinstance(e, ast.Compare) and \
                len(e.ops) == 1 and isinstance(e.ops[0], (ast.Eq, ast.Is)):
            vl = variants(e.left, at)
            vr = variants(e.comparators[0], at)
            if (vl & va and vr & vb) or (vl & vb and vr & va):
                return f
    return None


# --------------------------------------------------------------------------
# classification of the node expression
# --------------------------------------------------------------------------
class Derivation:
    def __init__(self, kind: str, cont: Optional[ast.AST] = None,
                 key: Optional[ast.AST] = None, shape: str = "?") -> None:
        self.kind = kind      # child | pass | virtual | other
        self.cont = cont
        self.key = key
        self.shape = shape    # seq | map | set | ?

    def __repr__(self) -> str:
        if self.kind == "child":
            return "child of {} at {} ({})".format(
                src(self.cont), src(self.key), self.shape)
        return self.kind


def derive(node_expr: ast.AST, at: ast.AST, data_param: Optional[str],
           depth: int = 0) -> Derivation:
    e = node_expr
    if isinstance(e, ast.Constant) and e.value is None:
        return Derivation("pass")
    if isinstance(e, ast.List):
        return Derivation("virtual")
    if isinstance(e, ast.Subscript) and not isinstance(e.slice, ast.Slice):
        return Derivation("child", e.value, e.slice, "?")
    if isinstance(e, ast.Call) and \
            src(e.func).endswith("unwrap_node_coords") and e.args and \
            depth < 4:
        return derive(e.args[0], at, data_param, depth + 1)
    if isinstance(e, ast.Call) and \
            src(e.func).endswith("append_list_element") and e.args:
        # the element just appended to C lives at len(C) - 1
        key = ast.parse("len({}) - 1".format(src(e.args[0])),
                        mode="eval").body
        return Derivation("child", e.args[0], key, "seq")
    if isinstance(e, ast.IfExp) and depth < 4:
        a = derive(e.body, at, data_param, depth + 1)
        b = derive(e.orelse, at, data_param, depth + 1)
        if a.kind == "child":
            return a
        return b
    if isinstance(e, ast.Name):
        if data_param is not None and e.id == data_param:
            return Derivation("pass")
        lb = loop_binding(e.id, at)
        if lb is not None:
            how, cont, keyt = lb
            if how == "enumerate":
                return Derivation("child", cont, keyt, "seq")
            if how == "items":
                return Derivation("child", cont, keyt, "map")
            if how == "iter":
                if isinstance(cont, ast.Call):
                    return Derivation("other")   # results of a call
                return Derivation("child", cont, e, "set")
            return Derivation("other")
        d = reaching_def(e.id, at)
        if d is not None and depth < 4:
            if isinstance(d, (ast.List, ast.ListComp)):
                return Derivation("virtual")
            return derive(d, at, data_param, depth + 1)
    return Derivation("other")


def container_shape(cont: ast.AST, at: ast.AST) -> str:
    cs = src(cont)
    kinds: Set[str] = set()
    for f in facts_at(at):
        e = f.expr
        if f.kind == "cond" and f.pol and isinstance(e, ast.Call) and \
                isinstance(e.func, ast.Name) and e.func.id == "isinstance" \
                and len(e.args) == 2 and src(e.args[0]) == cs:
            t = e.args[1]
            for el in (t.elts if isinstance(t, ast.Tuple) else [t]):
                kinds.add(src(el).split(".")[-1])
    if kinds & {"list", "CommentedSeq"} and not kinds & {"dict", "set"}:
        return "seq"
    if kinds & {"dict", "CommentedMap"}:
        return "map"
    if kinds & {"set", "CommentedSet"}:
        return "set"
    return "?"


# --------------------------------------------------------------------------
# path segment forms
# --------------------------------------------------------------------------
def resolve(expr: ast.AST, at: ast.AST, depth: int = 0) -> ast.AST:
    """Replace a local Name by its dominating definition (repeatedly)."""
    if isinstance(expr, ast.Name) and depth < 4:
        d = reaching_def(expr.id, at)
        if d is not None:
            return resolve(d, at, depth + 1)
    return expr


def _format_args(call: ast.AST) -> Optional[Tuple[str, List[ast.AST]]]:
    """('[{}]', [args]) for '[{}]'.format(x) and f'[{x}]'."""
    if isinstance(call, ast.Call) and isinstance(call.func, ast.Attribute) \
            and call.func.attr == "format" and \
            isinstance(call.func.value, ast.Constant) and \
            isinstance(call.func.value.value, str):
        return call.func.value.value, list(call.args)
    if isinstance(call, ast.JoinedStr):
        fmt = ""
        args: List[ast.AST] = []
        for v in call.values:
            if isinstance(v, ast.Constant):
                fmt += str(v.value)
            elif isinstance(v, ast.FormattedValue):
                fmt += "{}"
                args.append(v.value)
        return fmt, args
    return None


class Segment:
    def __init__(self, form: str, key: Optional[ast.AST],
                 sep: Optional[ast.AST] = None) -> None:
        self.form = form    # index | escaped | anchor | raw | slice
        self.key = key
        self.sep = sep


def parse_segment(seg: ast.AST) -> Optional[Segment]:
    fa = _format_args(seg)
    if fa is not None:
        fmt, args = fa
        if fmt == "[{}]" and len(args) == 1:
            k = args[0]
            if isinstance(k, ast.Call) and isinstance(k.func, ast.Name) and \
                    k.func.id == "str" and k.args:
                k = k.args[0]
            return Segment("index", k)
        if fmt == "[&{}]" and len(args) == 1:
            inner = parse_segment(args[0])
            if inner is not None and inner.form == "escaped":
                return Segment("anchor", inner.key, inner.sep)
            return Segment("anchor-raw", args[0])
        if fmt == "[{}:{}]":
            return Segment("slice", None)
        return Segment("raw", seg)
    if isinstance(seg, ast.Call) and \
            src(seg.func).endswith("escape_path_section") and \
            len(seg.args) == 2:
        return Segment("escaped", seg.args[0], seg.args[1])
    return None


class CoordCheck:
    """Result of comparing one coordinate tuple with its derivation."""

    def __init__(self) -> None:
        self.problems: List[str] = []
        self.facts: List[str] = []

    @property
    def ok(self) -> bool:
        return not self.problems


def check_tuple(der: Derivation, at: ast.AST, roles: Dict[str, str],
                parent_e: Optional[ast.AST], parentref_e: Optional[ast.AST],
                path_e: Optional[ast.AST], ancestry_e: Optional[ast.AST],
                allow_missing: Set[str] = frozenset()) -> CoordCheck:  # type: ignore
    """``roles`` maps 'parent','parentref','translated_path','ancestry' to
    the function's incoming variables."""
    res = CoordCheck()
    TP, ANC = roles.get("translated_path"), roles.get("ancestry")
    if der.kind == "pass":
        for role, e in (("parent", parent_e), ("parentref", parentref_e),
                        ("translated_path", path_e), ("ancestry", ancestry_e)):
            want = roles.get(role)
            if e is None:
                if role not in allow_missing:
                    res.problems.append(
                        "{} is not passed on".format(role))
                continue
            if want is None or src(e) != want:
                res.problems.append(
                    "pass-through of the current node must hand on the "
                    "incoming `{}`, found `{}`".format(want or role, src(e)))
        return res
    if der.kind != "child":
        return res
    cont, key = der.cont, der.key
    assert cont is not None and key is not None
    shape = der.shape if der.shape != "?" else container_shape(cont, at)
    # parent
    if parent_e is None:
        if "parent" not in allow_missing:
            res.problems.append("parent is not passed for a child of `{}`"
                                .format(src(cont)))
    elif src(parent_e) != src(cont):
        res.problems.append(
            "node is a child of `{}` but parent is `{}`".format(
                src(cont), src(parent_e)))
    # parentref
    if parentref_e is None:
        if "parentref" not in allow_missing:
            res.problems.append("parentref is not passed")
    elif not same_value(parentref_e, key, at, strict=True):
        f = equal_by_fact(parentref_e, key, at, strict=True)
        if f is None:
            res.problems.append(
                "node is `{}[{}]` but parentref is `{}`".format(
                    src(cont), src(key), src(parentref_e)))
        else:
            res.facts.append("parentref equals the key by `{}`".format(f))
    # path
    if path_e is None:
        if "translated_path" not in allow_missing:
            res.problems.append("translated_path is not passed")
    else:
        pe = resolve(path_e, at)
        if not (isinstance(pe, ast.BinOp) and isinstance(pe.op, ast.Add)):
            res.problems.append(
                "path `{}` is not `<incoming path> + <segment>`".format(
                    src(pe)[:80]))
        else:
            if TP is None or src(pe.left) != TP:
                res.problems.append(
                    "path is built on `{}` instead of the incoming "
                    "translated path `{}`".format(src(pe.left), TP))
            seg = parse_segment(pe.right)
            if seg is None:
                res.problems.append(
                    "path segment `{}` is neither '[index]' nor an "
                    "escape_path_section(...) of the key".format(
                        src(pe.right)[:80]))
            elif seg.form == "index":
                if shape in ("map", "set"):
                    res.problems.append(
                        "key of a {} is written as a bare '[{{}}]' index "
                        "segment (unescaped)".format(shape))
                elif not same_value(seg.key, key, at):  # type: ignore
                    res.problems.append(
                        "path names index `{}` but the node is at `{}`"
                        .format(src(seg.key), src(key)))
            elif seg.form == "escaped":
                if shape == "seq" and not _looks_like_key(key):
                    res.problems.append(
                        "sequence index written as an escaped key")
                if not same_value(seg.key, key, at):  # type: ignore
                    f = equal_by_fact(seg.key, key, at)  # type: ignore
                    if f is None:
                        res.problems.append(
                            "path names key `{}` but the node is at `{}`"
                            .format(src(seg.key), src(key)))
                if TP is not None and seg.sep is not None and \
                        src(seg.sep) != TP + ".separator":
                    res.problems.append(
                        "key escaped for separator `{}` instead of the "
                        "translated path's own".format(src(seg.sep)))
            elif seg.form == "anchor":
                if TP is not None and seg.sep is not None and \
                        src(seg.sep) != TP + ".separator":
                    res.problems.append(
                        "anchor escaped for a foreign separator")
            elif seg.form in ("anchor-raw", "raw"):
                res.problems.append(
                    "document text enters the path unescaped: `{}`".format(
                        src(pe.right)[:80]))
    # ancestry
    if ancestry_e is None:
        if "ancestry" not in allow_missing:
            res.problems.append(
                "ancestry is not passed for a child of `{}`".format(
                    src(cont)))
    else:
        ae = resolve(ancestry_e, at)
        ok = False
        if isinstance(ae, ast.BinOp) and isinstance(ae.op, ast.Add) and \
                isinstance(ae.right, ast.List) and len(ae.right.elts) == 1 \
                and isinstance(ae.right.elts[0], ast.Tuple) and \
                len(ae.right.elts[0].elts) == 2:
            c2, k2 = ae.right.elts[0].elts
            if ANC is None or src(ae.left) != ANC:
                res.problems.append(
                    "ancestry is built on `{}` instead of the incoming "
                    "`{}`".format(src(ae.left), ANC))
            if src(c2) != src(cont):
                res.problems.append(
                    "ancestry entry names container `{}`, node is in `{}`"
                    .format(src(c2), src(cont)))
            elif not same_value(k2, key, at, strict=True) and \
                    equal_by_fact(k2, key, at, strict=True) is None:
                res.problems.append(
                    "ancestry entry is `({}, {})` but the node is at "
                    "`{}[{}]`".format(src(c2), src(k2), src(cont), src(key)))
            ok = True
        if not ok:
            res.problems.append(
                "ancestry `{}` is not `<incoming ancestry> + [(container, "
                "key)]`".format(src(ae)[:80]))
    return res


def _looks_like_key(key: ast.AST) -> bool:
    return False


def incoming_roles(fi: FuncInfo) -> Dict[str, str]:
    """Variables holding the incoming coordinates of an evaluator function:
    locals assigned from ``kwargs.pop("<role>", ...)`` or same-named
    parameters."""
    roles: Dict[str, str] = {}
    kw = fi.node.args.kwarg.arg if fi.node.args.kwarg else None
    for n in walk_local(fi.node):
        if isinstance(n, (ast.Assign, ast.AnnAssign)):
            tgt = n.targets[0] if isinstance(n, ast.Assign) else n.target
            v = n.value
            if isinstance(tgt, ast.Name) and isinstance(v, ast.Call) and \
                    isinstance(v.func, ast.Attribute) and \
                    v.func.attr == "pop" and kw and \
                    src(v.func.value) == kw and v.args and \
                    isinstance(v.args[0], ast.Constant):
                role = str(v.args[0].value)
                if role in ("parent", "parentref", "translated_path",
                            "ancestry", "relay_segment"):
                    roles.setdefault(role, tgt.id)
    for p in fi.params():
        if p in ("parent", "parentref", "translated_path", "ancestry"):
            roles.setdefault(p, p)
    return roles


def reads_keywords(fi: FuncInfo) -> Set[str]:
    kw = fi.node.args.kwarg.arg if fi.node.args.kwarg else None
    out: Set[str] = set()
    for n in walk_local(fi.node):
        if isinstance(n, ast.Call) and isinstance(n.func, ast.Attribute) and \
                n.func.attr == "pop" and kw and \
                src(n.func.value) == kw and n.args and \
                isinstance(n.args[0], ast.Constant):
            out.add(str(n.args[0].value))
    return out
